package main

import (
	"fmt"
	"go/constant"
	"go/token"
	"go/types"
	"sort"
	"strings"

	"golang.org/x/tools/go/ssa"
)

// ---------------------------------------------------------------------------
// generic iteration helpers

func eachInstr(fn *ssa.Function, f func(b *ssa.BasicBlock, in ssa.Instruction)) {
	for _, b := range fn.Blocks {
		for _, in := range b.Instrs {
			f(b, in)
		}
	}
}

// callSites returns every call/go/defer instruction of fn in block order.
func callSites(fn *ssa.Function) []ssa.CallInstruction {
	var out []ssa.CallInstruction
	eachInstr(fn, func(_ *ssa.BasicBlock, in ssa.Instruction) {
		if c, ok := in.(ssa.CallInstruction); ok {
			out = append(out, c)
		}
	})
	return out
}

// staticCallee is the statically resolved callee of a call (function value,
// method or immediately known closure), or nil for dynamic/interface calls.
func staticCallee(c ssa.CallInstruction) *ssa.Function {
	return c.Common().StaticCallee()
}

// calleeName renders the callee for reports and table look-ups:
// static callee's full name, or "invoke T.m" for interface calls.
func calleeName(c ssa.CallInstruction) string {
	cc := c.Common()
	if f := cc.StaticCallee(); f != nil {
		return f.String()
	}
	if cc.IsInvoke() {
		return "invoke " + cc.Value.Type().String() + "." + cc.Method.Name()
	}
	if b, ok := cc.Value.(*ssa.Builtin); ok {
		return "builtin " + b.Name()
	}
	return "dynamic " + cc.Value.Name()
}

// funcShortName gives "T.m" / "f" / "f$1" without the package path.
func funcShortName(fn *ssa.Function) string {
	if fn == nil {
		return "<nil>"
	}
	s := fn.String()
	s = strings.ReplaceAll(s, zapPkgPath+".", "")
	s = strings.ReplaceAll(s, "(*", "")
	s = strings.ReplaceAll(s, ")", "")
	s = strings.ReplaceAll(s, "(", "")
	return s
}

// calleesAt returns the call-graph callees of a call site (VTA), falling back
// to the static callee.
func (p *Program) calleesAt(site ssa.CallInstruction) []*ssa.Function {
	if f := staticCallee(site); f != nil {
		return []*ssa.Function{f}
	}
	n := p.CG.Nodes[site.Parent()]
	if n == nil {
		return nil
	}
	seen := map[*ssa.Function]bool{}
	var out []*ssa.Function
	for _, e := range n.Out {
		if e.Site == site && !seen[e.Callee.Func] {
			seen[e.Callee.Func] = true
			out = append(out, e.Callee.Func)
		}
	}
	sort.Slice(out, func(i, j int) bool { return out[i].String() < out[j].String() })
	return out
}

// callersOf returns all call sites (in any function) that may call fn.
func (p *Program) callersOf(fn *ssa.Function) []ssa.CallInstruction {
	n := p.CG.Nodes[fn]
	if n == nil {
		return nil
	}
	seen := map[ssa.CallInstruction]bool{}
	var out []ssa.CallInstruction
	for _, e := range n.In {
		if e.Site != nil && !seen[e.Site] {
			seen[e.Site] = true
			out = append(out, e.Site)
		}
	}
	sort.Slice(out, func(i, j int) bool { return out[i].Pos() < out[j].Pos() })
	return out
}

// ---------------------------------------------------------------------------
// closures and cells

// closureSites returns the MakeClosure instructions creating fn (in its parent).
func closureSites(fn *ssa.Function) []*ssa.MakeClosure {
	par := fn.Parent()
	if par == nil {
		return nil
	}
	var out []*ssa.MakeClosure
	eachInstr(par, func(_ *ssa.BasicBlock, in ssa.Instruction) {
		if mc, ok := in.(*ssa.MakeClosure); ok && mc.Fn == fn {
			out = append(out, mc)
		}
	})
	return out
}

// freeVarBinding maps a free variable of a closure to the value bound at its
// (unique) creation site, or nil.
func freeVarBinding(fv *ssa.FreeVar) ssa.Value {
	fn := fv.Parent()
	sites := closureSites(fn)
	if len(sites) != 1 {
		return nil
	}
	for i, v := range fn.FreeVars {
		if v == fv {
			return sites[0].Bindings[i]
		}
	}
	return nil
}

// cellOf returns the local variable cell (an *ssa.Alloc in the defining
// function) that addr denotes: an Alloc, or a FreeVar bound to one.
func cellOf(addr ssa.Value) *ssa.Alloc {
	for i := 0; i < 8; i++ {
		switch a := addr.(type) {
		case *ssa.Alloc:
			return a
		case *ssa.FreeVar:
			b := freeVarBinding(a)
			if b == nil {
				return nil
			}
			addr = b
		default:
			return nil
		}
	}
	return nil
}

// cellStores lists every Store into the cell, in the defining function and in
// the closures that capture it (transitively).
func cellStores(cell *ssa.Alloc) []*ssa.Store {
	var out []*ssa.Store
	seen := map[ssa.Value]bool{}
	var visit func(addr ssa.Value)
	visit = func(addr ssa.Value) {
		if seen[addr] {
			return
		}
		seen[addr] = true
		refs := addr.Referrers()
		if refs == nil {
			return
		}
		for _, r := range *refs {
			switch r := r.(type) {
			case *ssa.Store:
				if r.Addr == addr {
					out = append(out, r)
				}
			case *ssa.MakeClosure:
				for i, b := range r.Bindings {
					if b == addr {
						fn := r.Fn.(*ssa.Function)
						visit(fn.FreeVars[i])
					}
				}
			}
		}
	}
	visit(cell)
	return out
}

// cellEscapes reports whether the address of the cell is used for anything
// other than loads, stores and closure capture (e.g. passed to a callee).
func cellEscapes(cell *ssa.Alloc) bool {
	esc := false
	seen := map[ssa.Value]bool{}
	var visit func(addr ssa.Value)
	visit = func(addr ssa.Value) {
		if seen[addr] {
			return
		}
		seen[addr] = true
		refs := addr.Referrers()
		if refs == nil {
			return
		}
		for _, r := range *refs {
			switch r := r.(type) {
			case *ssa.Store:
				if r.Val == addr {
					esc = true
				}
			case *ssa.UnOp:
				if r.Op != token.MUL {
					esc = true
				}
			case *ssa.MakeClosure:
				for i, b := range r.Bindings {
					if b == addr {
						visit(r.Fn.(*ssa.Function).FreeVars[i])
					}
				}
			case *ssa.DebugRef:
			case *ssa.Defer:
				// `defer out.abortOnError(&err)`: handed to a deferred routine that only reads through it —
				// it runs after the body, like a deferred closure that looks at the variable
				f := r.Call.StaticCallee()
				okAll := f != nil && len(f.Blocks) > 0 && !r.Call.IsInvoke()
				if okAll {
					for i, a := range r.Call.Args {
						if a == addr && !(i < len(f.Params) && readOnlyPtrParam(f.Params[i])) {
							okAll = false
						}
					}
				}
				if !okAll {
					esc = true
				}
			default:
				esc = true
			}
		}
	}
	visit(cell)
	return esc
}

// readOnlyPtrParam: the function does nothing with its pointer parameter but load through it.
func readOnlyPtrParam(prm *ssa.Parameter) bool {
	if prm.Referrers() == nil {
		return true
	}
	for _, r := range *prm.Referrers() {
		switch x := r.(type) {
		case *ssa.UnOp:
			if x.Op != token.MUL {
				return false
			}
		case *ssa.DebugRef:
		default:
			return false
		}
	}
	return true
}

// root strips value-preserving wrappers and looks through single-assignment
// local variable cells (including cells captured by closures), so that two
// syntactic mentions of the same local denote the same ssa.Value.
func root(v ssa.Value) ssa.Value {
	for i := 0; i < 32; i++ {
		switch x := v.(type) {
		case *ssa.ChangeType:
			v = x.X
		case *ssa.ChangeInterface:
			v = x.X
		case *ssa.MakeInterface:
			v = x.X
		case *ssa.TypeAssert:
			if x.CommaOk {
				return v
			}
			v = x.X
		case *ssa.UnOp:
			if x.Op != token.MUL {
				return v
			}
			if fa, ok := x.X.(*ssa.FieldAddr); ok {
				// the file / path field of a file owner (owners.go)
				if rep, ok := aliasOf(fa); ok {
					if rep == v {
						return v
					}
					v = rep
					continue
				}
				return v
			}
			cell := cellOf(x.X)
			if cell == nil {
				return v
			}
			if cellEscapes(cell) {
				return v
			}
			st := cellStores(cell)
			if len(st) != 1 {
				return v
			}
			v = st[0].Val
		default:
			return v
		}
	}
	return v
}

// sameValue: two values denote the same runtime value on every path.
func sameValue(a, b ssa.Value) bool {
	ra, rb := root(a), root(b)
	if ra == rb {
		return true
	}
	// loads of the same (multi-store) cell are NOT the same value in general.
	return false
}

// sameCell: both are loads from the same local variable cell.
func sameCell(a, b ssa.Value) bool {
	la, ok1 := a.(*ssa.UnOp)
	lb, ok2 := b.(*ssa.UnOp)
	if !ok1 || !ok2 || la.Op != token.MUL || lb.Op != token.MUL {
		return false
	}
	ca, cb := cellOf(la.X), cellOf(lb.X)
	return ca != nil && ca == cb
}

// ---------------------------------------------------------------------------
// constants

func isNilConst(v ssa.Value) bool {
	c, ok := v.(*ssa.Const)
	return ok && c.IsNil()
}

func constBool(v ssa.Value) (val, ok bool) {
	c, isC := v.(*ssa.Const)
	if !isC || c.Value == nil || c.Value.Kind() != constant.Bool {
		return false, false
	}
	return constant.BoolVal(c.Value), true
}

func constUint64(v ssa.Value) (uint64, bool) {
	c, isC := v.(*ssa.Const)
	if !isC || c.Value == nil {
		return 0, false
	}
	if c.Value.Kind() != constant.Int {
		return 0, false
	}
	u, ok := constant.Uint64Val(c.Value)
	if ok {
		return u, true
	}
	if i, ok := constant.Int64Val(c.Value); ok {
		return uint64(i), true
	}
	return 0, false
}

func constInt64(v ssa.Value) (int64, bool) {
	c, isC := v.(*ssa.Const)
	if !isC || c.Value == nil || c.Value.Kind() != constant.Int {
		return 0, false
	}
	return constant.Int64Val(c.Value)
}

func constString(v ssa.Value) (string, bool) {
	c, isC := v.(*ssa.Const)
	if !isC || c.Value == nil || c.Value.Kind() != constant.String {
		return "", false
	}
	return constant.StringVal(c.Value), true
}

// ---------------------------------------------------------------------------
// types

func isErrorType(t types.Type) bool {
	return types.Identical(t, types.Universe.Lookup("error").Type())
}

// errorResultIndex returns the index of the (last) result of type error.
func errorResultIndex(sig *types.Signature) int {
	r := sig.Results()
	for i := r.Len() - 1; i >= 0; i-- {
		if isErrorType(r.At(i).Type()) {
			return i
		}
	}
	return -1
}

func derefType(t types.Type) types.Type {
	if p, ok := t.Underlying().(*types.Pointer); ok {
		return p.Elem()
	}
	return t
}

func namedOf(t types.Type) *types.Named {
	t = derefType(t)
	n, _ := t.(*types.Named)
	return n
}

// isNamed reports whether t (or *t) is the named type pkgPath.name.
func isNamed(t types.Type, pkgPath, name string) bool {
	n := namedOf(t)
	if n == nil || n.Obj() == nil {
		return false
	}
	if n.Obj().Name() != name {
		return false
	}
	if n.Obj().Pkg() == nil {
		return pkgPath == ""
	}
	return n.Obj().Pkg().Path() == pkgPath
}

// fieldOf decodes a FieldAddr/Field instruction into (struct type name, field name).
func fieldOf(v ssa.Value) (structName, fieldName string, base ssa.Value, ok bool) {
	switch x := v.(type) {
	case *ssa.FieldAddr:
		st := derefType(x.X.Type())
		s, isS := st.Underlying().(*types.Struct)
		if !isS {
			return "", "", nil, false
		}
		name := ""
		if n := namedOf(st); n != nil {
			name = n.Obj().Name()
		}
		fld := canonFieldName(name, s, x.Field)
		if on, ob, ok := liftMovedField(name, fld, x.X); ok {
			return on, fld, ob, true
		}
		return name, fld, x.X, true
	case *ssa.Field:
		st := x.X.Type()
		s, isS := st.Underlying().(*types.Struct)
		if !isS {
			return "", "", nil, false
		}
		name := ""
		if n := namedOf(st); n != nil {
			name = n.Obj().Name()
		}
		return name, canonFieldName(name, s, x.Field), x.X, true
	}
	return "", "", nil, false
}

// liftMovedField: a field that the pinned tree had directly in struct S and that now lives in a new
// struct type held by S (`Segment.f`, `Segment.mm` moved into an embedded `mappedFile`) is still "field
// fld of S": when the struct `name` is not a struct of the pinned tree, its address is a field of a pinned
// struct S, S had a field called fld and has none now, the access is reported as (S, fld) on S's base.
func liftMovedField(name, fld string, base ssa.Value) (string, ssa.Value, bool) {
	if _, pinned := pinnedFields[name]; pinned || name == "" {
		return "", nil, false
	}
	outer, ok := base.(*ssa.FieldAddr)
	if !ok {
		// inside a method of the new struct type (`func (mf *mappedFile) release()`): the receiver stands
		// for the one pinned struct that holds a value of this type and used to have the field itself
		if prm, isPrm := base.(*ssa.Parameter); isPrm && prm.Parent() != nil && prm.Parent().Pkg != nil {
			inner := namedOf(derefType(prm.Type()))
			if inner == nil {
				return "", nil, false
			}
			owner := ""
			sc := prm.Parent().Pkg.Pkg.Scope()
			for on, pf := range pinnedFields {
				tn, _ := sc.Lookup(on).(*types.TypeName)
				if tn == nil {
					continue
				}
				ost, isS := tn.Type().Underlying().(*types.Struct)
				if !isS {
					continue
				}
				holds, hasOwn := false, false
				for i := 0; i < ost.NumFields(); i++ {
					ft := ost.Field(i).Type()
					if pt, ok := ft.Underlying().(*types.Pointer); ok {
						ft = pt.Elem()
					}
					if types.Identical(ft, inner) {
						holds = true
					}
					if ost.Field(i).Name() == fld {
						hasOwn = true
					}
				}
				had := false
				for _, f := range pf {
					if strings.HasPrefix(f, fld+" ") {
						had = true
					}
				}
				if holds && had && !hasOwn {
					if owner != "" {
						return "", nil, false // ambiguous
					}
					owner = on
				}
			}
			if owner != "" {
				return owner, base, true
			}
		}
		return "", nil, false
	}
	ost := derefType(outer.X.Type())
	os, isS := ost.Underlying().(*types.Struct)
	if !isS {
		return "", nil, false
	}
	on := ""
	if n := namedOf(ost); n != nil {
		on = n.Obj().Name()
	}
	pf, pinned := pinnedFields[on]
	if !pinned {
		// one more level (a struct inside a struct inside S)
		if on2, ob2, ok := liftMovedField(on, fld, outer.X); ok {
			return on2, ob2, true
		}
		return "", nil, false
	}
	had := false
	for _, f := range pf {
		if strings.HasPrefix(f, fld+" ") {
			had = true
		}
	}
	if !had {
		return "", nil, false
	}
	for i := 0; i < os.NumFields(); i++ {
		if os.Field(i).Name() == fld {
			return "", nil, false // S still has its own field of that name
		}
	}
	return on, outer.X, true
}

// loadedField: v is a load `*(&x.f)`; returns struct, field, base.
func loadedField(v ssa.Value) (structName, fieldName string, base ssa.Value, ok bool) {
	u, isU := v.(*ssa.UnOp)
	if !isU || u.Op != token.MUL {
		return "", "", nil, false
	}
	return fieldOf(u.X)
}

// ---------------------------------------------------------------------------
// nil-ness of a value at a program point (as in x/tools' nilness pass:
// facts come from dominating `v == nil` / `v != nil` branches whose taken
// successor has a single predecessor).

type nilState int

const (
	nilUnknown nilState = iota
	isNil
	nonNil
)

func (n nilState) String() string {
	switch n {
	case isNil:
		return "nil"
	case nonNil:
		return "non-nil"
	}
	return "unknown"
}

// localCellOfLoad: v is a load of a local variable cell of its own function
// whose address does not escape and which closures, if they capture it, only
// read (the deferred `if err != nil { cleanup }`).
func localCellOfLoad(v ssa.Value) *ssa.Alloc {
	u, ok := v.(*ssa.UnOp)
	if !ok || u.Op != token.MUL {
		return nil
	}
	al, ok := u.X.(*ssa.Alloc)
	if !ok || cellEscapes(al) {
		return nil
	}
	for _, st := range cellStores(al) {
		if st.Parent() != al.Parent() {
			// written by a closure: the stores are not all in sight — unless that closure only ever runs
			// deferred, and this load comes before the deferred calls run
			if deferredOnlyClosure(st.Parent()) && (!afterRunDefers(u) || !deferRegisteredBefore(st.Parent(), u.Block())) {
				continue
			}
			return nil
		}
	}
	return al
}

// deferredOnlyClosure: every use of the closure fn is `defer fn()`.
func deferredOnlyClosure(fn *ssa.Function) bool {
	sites := closureSites(fn)
	if len(sites) == 0 {
		return false
	}
	for _, mc := range sites {
		for _, r := range *mc.Referrers() {
			switch x := r.(type) {
			case *ssa.Defer:
				if x.Call.Value != ssa.Value(mc) {
					return false
				}
			case *ssa.DebugRef:
			default:
				return false
			}
		}
	}
	return true
}

// deferRegisteredBefore: some `defer cl()` statement can have run on a way to block b.
func deferRegisteredBefore(cl *ssa.Function, b *ssa.BasicBlock) bool {
	for _, mc := range closureSites(cl) {
		for _, r := range *mc.Referrers() {
			if d, ok := r.(*ssa.Defer); ok && (d.Block() == b || reachesBlock(d.Block(), b)) {
				return true
			}
		}
	}
	return false
}

// afterRunDefers: the instruction comes after a RunDefers in its block (the reload of a named result).
func afterRunDefers(in ssa.Instruction) bool {
	for _, x := range in.Block().Instrs {
		if x == in {
			return false
		}
		if _, ok := x.(*ssa.RunDefers); ok {
			return true
		}
	}
	return false
}

// noStoreBetween: no store into cell can execute after `from` (an instruction
// whose block dominates b) and before the end of block b.
func noStoreBetween(cell *ssa.Alloc, from ssa.Instruction, b *ssa.BasicBlock) bool {
	return noStoreBetweenUpTo(cell, from, b, nil)
}

// noStoreBetweenUpTo: as noStoreBetween, but only up to instruction upTo of
// block b (nil: to the end of b).
func noStoreBetweenUpTo(cell *ssa.Alloc, from ssa.Instruction, b *ssa.BasicBlock, upTo ssa.Instruction) bool {
	fb := from.Block()
	if fb != b && !fb.Dominates(b) {
		return false
	}
	// blocks that can reach b
	reachB := map[*ssa.BasicBlock]bool{b: true}
	work := []*ssa.BasicBlock{b}
	for len(work) > 0 {
		x := work[len(work)-1]
		work = work[:len(work)-1]
		if x == fb {
			continue // paths are cut at the dominating block
		}
		for _, p := range x.Preds {
			if !reachB[p] {
				reachB[p] = true
				work = append(work, p)
			}
		}
	}
	for _, st := range cellStores(cell) {
		if st.Parent() != b.Parent() {
			continue
		}
		sb := st.Block()
		if sb == fb {
			if instrIndexIn(st) > instrIndexIn(from) {
				return false
			}
			continue
		}
		if sb == b && upTo != nil && instrIndexIn(st) > instrIndexIn(upTo) {
			// after the point of interest — unless b is in a cycle that comes back
			inCycle := false
			for _, p := range b.Preds {
				if reachB[p] && p != fb && b.Dominates(p) {
					inCycle = true
				}
			}
			if !inCycle {
				continue
			}
		}
		if reachB[sb] && fb.Dominates(sb) {
			return false
		}
	}
	return true
}

func instrIndexIn(in ssa.Instruction) int {
	for i, x := range in.Block().Instrs {
		if x == in {
			return i
		}
	}
	return -1
}

// loadsEqual: a and b are loads of the same local cell and nothing is stored
// into it between them (a's block dominates b's).
func loadsEqual(a, b ssa.Value) bool {
	ca, cb := localCellOfLoad(a), localCellOfLoad(b)
	if ca == nil || ca != cb {
		return false
	}
	ia, ib := a.(ssa.Instruction), b.(ssa.Instruction)
	if ia.Block() == ib.Block() {
		lo, hi := ia, ib
		if instrIndexIn(lo) > instrIndexIn(hi) {
			lo, hi = hi, lo
		}
		for _, st := range cellStores(ca) {
			if st.Block() == lo.Block() && instrIndexIn(st) > instrIndexIn(lo) && instrIndexIn(st) < instrIndexIn(hi) {
				return false
			}
		}
		return true
	}
	if !ia.Block().Dominates(ib.Block()) {
		return false
	}
	return noStoreBetweenUpTo(ca, ia, ib.Block(), ib)
}

// resolveLoad: the value a load of a local cell yields, when one store into the
// cell dominates the load and nothing is stored in between.
// resolveLoadDeep follows resolveLoad through copies of the variable into itself (`t = *err; *err = t`).
func resolveLoadDeep(v ssa.Value) ssa.Value {
	for i := 0; i < 4; i++ {
		r := resolveLoad(v)
		if r == v {
			return v
		}
		v = r
	}
	return v
}

func resolveLoad(v ssa.Value) ssa.Value {
	cell := localCellOfLoad(v)
	if cell == nil {
		return v
	}
	ld := v.(ssa.Instruction)
	var best *ssa.Store
	for _, st := range cellStores(cell) {
		if st.Parent() != ld.Parent() {
			continue // a store made by a deferred-only closure (see localCellOfLoad): it has not run yet
		}
		sb := st.Block()
		if sb == ld.Block() {
			if instrIndexIn(st) > instrIndexIn(ld) {
				continue
			}
			// no later store before the load in this block
			later := false
			for _, st2 := range cellStores(cell) {
				if st2 != st && st2.Block() == sb && instrIndexIn(st2) > instrIndexIn(st) && instrIndexIn(st2) < instrIndexIn(ld) {
					later = true
				}
			}
			if !later {
				return st.Val
			}
			continue
		}
		if sb.Dominates(ld.Block()) && noStoreBetweenUpTo(cell, st, ld.Block(), ld) {
			best = st
		}
	}
	if best != nil {
		// (noStoreBetween counts every store in the load's block; stores after
		// the load there only make this more conservative)
		return best.Val
	}
	return v
}

// cellNilnessAt: nil-ness of the content of a local cell (an error variable)
// at the end of block b, from the last store in b or from a dominating test of
// a load that nothing was stored after.
func cellNilnessAt(cell *ssa.Alloc, b *ssa.BasicBlock) nilState {
	if cellEscapes(cell) {
		return nilUnknown
	}
	for _, st := range cellStores(cell) {
		if st.Parent() != cell.Parent() && !deferredOnlyClosure(st.Parent()) {
			return nilUnknown
		}
	}
	// (stores made by closures that only run deferred do not count below: this is the state of the
	// variable when the block is left, before the deferred calls run)
	// last store in b itself
	var last *ssa.Store
	for _, in := range b.Instrs {
		if st, ok := in.(*ssa.Store); ok && st.Addr == ssa.Value(cell) {
			last = st
		}
	}
	if last != nil {
		return nilnessAt(last.Val, b)
	}
	refs := cell.Referrers()
	if refs == nil {
		return nilUnknown
	}
	for _, r := range *refs {
		u, ok := r.(*ssa.UnOp)
		if !ok || u.Op != token.MUL {
			continue
		}
		if u.Block() != b && !u.Block().Dominates(b) {
			continue
		}
		if !noStoreBetween(cell, u, b) {
			continue
		}
		if st := dominatingFact(u, b); st != nilUnknown {
			return st
		}
	}
	// a dominating store of a value of known nil-ness with nothing after it
	for _, st := range cellStores(cell) {
		if st.Parent() != cell.Parent() {
			continue
		}
		if (st.Block() == b || st.Block().Dominates(b)) && noStoreBetween(cell, st, b) {
			if ns := nilnessAt(st.Val, b); ns != nilUnknown {
				return ns
			}
		}
	}
	return nilUnknown
}

// branchFact returns the fact that edge pred->succ establishes about v.
func branchFact(pred, succ *ssa.BasicBlock, v ssa.Value) nilState {
	if len(pred.Instrs) == 0 {
		return nilUnknown
	}
	iff, ok := pred.Instrs[len(pred.Instrs)-1].(*ssa.If)
	if !ok {
		return nilUnknown
	}
	if pred.Succs[0] == pred.Succs[1] {
		return nilUnknown
	}
	bo, ok := iff.Cond.(*ssa.BinOp)
	if !ok || (bo.Op != token.EQL && bo.Op != token.NEQ) {
		return nilUnknown
	}
	var other ssa.Value
	if isNilConst(bo.Y) {
		other = bo.X
	} else if isNilConst(bo.X) {
		other = bo.Y
	} else {
		return nilUnknown
	}
	if other != v && !(sameValue(other, v)) && !loadsEqual(other, v) {
		// the test is on a load of a variable that holds v
		if r := resolveLoad(other); r == other || (r != v && !sameValue(r, v)) {
			return nilUnknown
		}
	}
	trueEdge := pred.Succs[0] == succ
	if (bo.Op == token.EQL) == trueEdge {
		return isNil
	}
	return nonNil
}

// nilnessAt evaluates v at the entry of block b.
func nilnessAt(v ssa.Value, b *ssa.BasicBlock) nilState {
	return nilnessRec(v, b, map[ssa.Value]bool{})
}

func nilnessRec(v ssa.Value, b *ssa.BasicBlock, seen map[ssa.Value]bool) nilState {
	switch x := v.(type) {
	case *ssa.Const:
		if x.IsNil() {
			return isNil
		}
		return nonNil
	case *ssa.MakeInterface, *ssa.Alloc, *ssa.MakeClosure, *ssa.MakeMap, *ssa.MakeSlice, *ssa.MakeChan, *ssa.Function, *ssa.FieldAddr, *ssa.IndexAddr:
		return nonNil
	case *ssa.Call:
		if f := x.Call.StaticCallee(); f != nil {
			switch f.String() {
			case "fmt.Errorf", "errors.New":
				return nonNil
			}
			// a helper of the package that dresses an error up (`wrapErr("phase", err)`): every one of its
			// returns is a fresh error
			if alwaysFreshError(f, 0) {
				return nonNil
			}
		}
	case *ssa.UnOp:
		if x.Op == token.MUL {
			if g, ok := x.X.(*ssa.Global); ok && isErrorType(g.Type().(*types.Pointer).Elem()) {
				// package-level error variables (seg.ErrClosed, ErrChunkSizeZero,
				// vellum.ErrIteratorDone ...) are initialised once and never nil.
				return nonNil
			}
			r := root(v)
			if r != v {
				return nilnessRec(r, b, seen)
			}
		}
	case *ssa.Phi:
		if seen[v] {
			return nilUnknown
		}
		seen[v] = true
		// facts established on x itself first
		if st := dominatingFact(v, b); st != nilUnknown {
			return st
		}
		res := nilUnknown
		first := true
		for i, e := range x.Edges {
			pred := x.Block().Preds[i]
			st := nilnessOnEdge(e, pred, x.Block(), seen)
			if first {
				res, first = st, false
			} else if res != st {
				return nilUnknown
			}
		}
		return res
	}
	return dominatingFact(v, b)
}

// nilnessOnEdge evaluates v at the end of pred, refined by the edge pred->succ.
func nilnessOnEdge(v ssa.Value, pred, succ *ssa.BasicBlock, seen map[ssa.Value]bool) nilState {
	if st := branchFact(pred, succ, v); st != nilUnknown {
		return st
	}
	// evaluate at the end of pred == facts valid at entry of pred (values are
	// immutable in SSA) plus facts from pred's own dominators.
	return nilnessRec(v, pred, seen)
}

func dominatingFact(v ssa.Value, b *ssa.BasicBlock) nilState {
	for c := b; c != nil; c = c.Idom() {
		p := c.Idom()
		if p == nil {
			break
		}
		if len(c.Preds) != 1 || c.Preds[0] != p {
			continue
		}
		if st := branchFact(p, c, v); st != nilUnknown {
			return st
		}
	}
	return nilUnknown
}

// ---------------------------------------------------------------------------
// returns

// returnedValue gives result i of a Return, looking through the result spill
// that go/ssa introduces in functions with defer/recover
// (`*r = v; rundefers; t = *r; return t`).
func returnedValue(ret *ssa.Return, i int) ssa.Value {
	return passThrough(returnedValueRaw(ret, i))
}

// resolvedCallee: the static callee of a call, or the closure a call through a
// local variable resolves to.
func resolvedCallee(cs ssa.CallInstruction) *ssa.Function {
	cc := cs.Common()
	if f := cc.StaticCallee(); f != nil {
		return f
	}
	if cc.IsInvoke() {
		return nil
	}
	if mc, ok := root(cc.Value).(*ssa.MakeClosure); ok {
		if f, ok := mc.Fn.(*ssa.Function); ok {
			return f
		}
	}
	return nil
}

// passThrough: a call of a function whose every return hands back one of its
// own parameters unchanged (`abort := func(err error) error { cleanup();
// return err }`) denotes the argument passed for that parameter.
func passThrough(v ssa.Value) ssa.Value {
	for i := 0; i < 3; i++ {
		var call *ssa.Call
		ri := 0
		switch x := v.(type) {
		case *ssa.Call:
			call = x
			if x.Call.Signature().Results().Len() != 1 {
				return v
			}
		case *ssa.Extract:
			c, ok := x.Tuple.(*ssa.Call)
			if !ok {
				return v
			}
			call, ri = c, x.Index
		default:
			return v
		}
		f := resolvedCallee(call)
		if f == nil || len(f.Blocks) == 0 || ri >= f.Signature.Results().Len() {
			return v
		}
		k := -1
		for _, ret := range returnsOf(f) {
			if ri >= len(ret.Results) {
				return v
			}
			idx := -1
			rv := returnedValueRaw(ret, ri)
			for pi, p := range f.Params {
				if rv == ssa.Value(p) {
					idx = pi
				}
			}
			if idx < 0 || (k >= 0 && idx != k) {
				return v
			}
			k = idx
		}
		if k < 0 || k >= len(call.Call.Args) {
			return v
		}
		v = call.Call.Args[k]
	}
	return v
}

func returnedValueRaw(ret *ssa.Return, i int) ssa.Value {
	v := ret.Results[i]
	u, ok := v.(*ssa.UnOp)
	if !ok || u.Op != token.MUL {
		return v
	}
	al, ok := u.X.(*ssa.Alloc)
	if !ok {
		return v
	}
	// nearest preceding store to the same alloc in this block
	b := ret.Block()
	var last ssa.Value
	for _, in := range b.Instrs {
		if in == ssa.Instruction(u) {
			break
		}
		if st, ok := in.(*ssa.Store); ok && st.Addr == al {
			last = st.Val
		}
	}
	if last != nil {
		return last
	}
	// named result variable assigned elsewhere: if every store to it stores
	// the same value, use that.
	sts := cellStores(al)
	if len(sts) == 1 {
		return sts[0].Val
	}
	return v
}

func returnsOf(fn *ssa.Function) []*ssa.Return {
	var out []*ssa.Return
	for _, b := range fn.Blocks {
		if b == fn.Recover {
			continue
		}
		if len(b.Instrs) == 0 {
			continue
		}
		if r, ok := b.Instrs[len(b.Instrs)-1].(*ssa.Return); ok {
			out = append(out, r)
		}
	}
	return out
}

// errorOfReturn classifies a return by the nil-ness of its error result.
func errorOfReturn(ret *ssa.Return) (ssa.Value, nilState) {
	fn := ret.Parent()
	idx := errorResultIndex(fn.Signature)
	if idx < 0 {
		return nil, nilUnknown
	}
	v := returnedValue(ret, idx)
	return v, nilnessAt(v, ret.Block())
}

// ---------------------------------------------------------------------------
// referrers

// hasRealUse: v is used by something other than debug info; phis are followed.
func hasRealUse(v ssa.Value) bool {
	return hasRealUseRec(v, map[ssa.Value]bool{})
}

func hasRealUseRec(v ssa.Value, seen map[ssa.Value]bool) bool {
	if seen[v] {
		return false
	}
	seen[v] = true
	refs := v.Referrers()
	if refs == nil {
		return true // values without referrer tracking (globals, functions)
	}
	for _, r := range *refs {
		switch r := r.(type) {
		case *ssa.DebugRef:
			continue
		case *ssa.Phi:
			if hasRealUseRec(r, seen) {
				return true
			}
		default:
			return true
		}
	}
	return false
}

func describeInstr(p *Program, in ssa.Instruction) string {
	s := in.String()
	if v, ok := in.(ssa.Value); ok {
		s = v.Name() + " = " + s
	}
	if len(s) > 120 {
		s = s[:117] + "..."
	}
	return fmt.Sprintf("%s: %s", p.Pos(in.Pos()), s)
}

// posOf finds a usable position for an instruction (go/ssa leaves NoPos on
// many), falling back to the nearest positioned instruction in the block and
// then to the function.
func (p *Program) instrPos(in ssa.Instruction) string {
	if in.Pos().IsValid() {
		return p.Pos(in.Pos())
	}
	b := in.Block()
	if b != nil {
		idx := -1
		for i, x := range b.Instrs {
			if x == in {
				idx = i
			}
		}
		for d := 1; d < len(b.Instrs); d++ {
			for _, j := range []int{idx - d, idx + d} {
				if j >= 0 && j < len(b.Instrs) && b.Instrs[j].Pos().IsValid() {
					return p.Pos(b.Instrs[j].Pos())
				}
			}
		}
	}
	if in.Parent() != nil {
		return p.Pos(in.Parent().Pos())
	}
	return "-"
}

// alwaysFreshError: f has a single error result and every return hands back fmt.Errorf / errors.New (or
// the result of another such helper).
func alwaysFreshError(f *ssa.Function, depth int) bool {
	if f == nil || len(f.Blocks) == 0 || depth > 2 || f.Pkg == nil || !strings.HasPrefix(f.Pkg.Pkg.Path(), zapPkgPath) {
		return false
	}
	res := f.Signature.Results()
	if res.Len() != 1 || !isErrorType(res.At(0).Type()) {
		return false
	}
	n := 0
	for _, ret := range returnsOf(f) {
		call, ok := ret.Results[0].(*ssa.Call)
		if !ok {
			return false
		}
		g := call.Call.StaticCallee()
		if g == nil {
			return false
		}
		if s := g.String(); s == "fmt.Errorf" || s == "errors.New" || alwaysFreshError(g, depth+1) {
			n++
			continue
		}
		return false
	}
	return n > 0
}
