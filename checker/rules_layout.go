package main

// R27 RECORD-WIDTHS — the fixed-width big-endian records below the footer
// (field table pairs, fields index, stored-document index, doc-value trailer)
// are written and read with the widths, strides and order of the v16 layout.
//
// Only the fixed-width parts are decided, and (rules_header.go) the three-uvarint
// record a section keeps per field, on the writer side; the other uvarint
// streams in between are runtime-length and are not (DESIGN.md §7).

import (
	"fmt"
	"go/token"
	"go/types"
	"sort"
	"strings"

	"golang.org/x/tools/go/ssa"
)

type beRead struct {
	call       *ssa.Call
	width      int // from the function name (Uint16/32/64)
	sliceWidth int // High - Low of the argument slice when High = Low + const; -1 otherwise
	low        ssa.Value
}

func beReadsOf(fn *ssa.Function) []beRead {
	var out []beRead
	eachInstr(fn, func(_ *ssa.BasicBlock, in ssa.Instruction) {
		call, ok := in.(*ssa.Call)
		if !ok {
			return
		}
		f := call.Call.StaticCallee()
		if f == nil || !strings.HasPrefix(f.String(), "(encoding/binary.bigEndian).Uint") {
			return
		}
		w := 0
		switch {
		case strings.HasSuffix(f.String(), "Uint16"):
			w = 2
		case strings.HasSuffix(f.String(), "Uint32"):
			w = 4
		case strings.HasSuffix(f.String(), "Uint64"):
			w = 8
		}
		r := beRead{call: call, width: w, sliceWidth: -1}
		arg := call.Call.Args[len(call.Call.Args)-1]
		if ct, ok := arg.(*ssa.ChangeType); ok {
			arg = ct.X
		}
		// the bytes may come from a bounds-checked range helper (`buf, err := s.memRange(pos, pos+8, …)`):
		// its arguments are the bounds
		if lo, hi, ok := rangeHelperBounds(arg); ok {
			r.low = lo
			if bo, ok := hi.(*ssa.BinOp); ok && bo.Op == token.ADD && (bo.X == lo || structEq(bo.X, lo, 0)) {
				if k, ok := constInt64(bo.Y); ok {
					r.sliceWidth = int(k)
				} else if k, ok := constUint64(bo.Y); ok {
					r.sliceWidth = int(k)
				}
			}
		}
		if sl, ok := arg.(*ssa.Slice); ok {
			r.low = sl.Low
			// parts of a window read in one go: win[:2], win[2:] (win = a checked range of known width)
			if lo, hi, ok := rangeHelperBounds(sl.X); ok {
				win := -1
				if bo, ok := hi.(*ssa.BinOp); ok && bo.Op == token.ADD {
					// pos + 2 + 8 is ((pos + 2) + 8)
					tot, base := int64(0), ssa.Value(bo)
					for {
						b2, ok := base.(*ssa.BinOp)
						if !ok || b2.Op != token.ADD {
							break
						}
						k, okk := constInt64(b2.Y)
						if !okk {
							ku, oku := constUint64(b2.Y)
							if !oku {
								break
							}
							k = int64(ku)
						}
						tot += k
						base = b2.X
					}
					if base == lo || structEq(base, lo, 0) {
						win = int(tot)
					}
				}
				lowK, highK := int64(0), int64(-1)
				if sl.Low != nil {
					if k, ok := constInt64(sl.Low); ok {
						lowK = k
					} else {
						lowK = -1
					}
				}
				if sl.High != nil {
					if k, ok := constInt64(sl.High); ok {
						highK = k
					}
				} else if win >= 0 {
					highK = int64(win)
				}
				if lowK >= 0 && highK >= 0 {
					r.sliceWidth = int(highK - lowK)
					r.low = lo
				}
			}
			if bo, ok := sl.High.(*ssa.BinOp); ok && bo.Op == token.ADD && (bo.X == sl.Low || structEq(bo.X, sl.Low, 0)) {
				if k, ok := constInt64(bo.Y); ok {
					r.sliceWidth = int(k)
				} else if k, ok := constUint64(bo.Y); ok {
					r.sliceWidth = int(k)
				}
			}
			// mem[end-8 : end]
			if bo, ok := sl.Low.(*ssa.BinOp); ok && bo.Op == token.SUB && bo.X == sl.High {
				if k, ok := constUint64(bo.Y); ok {
					r.sliceWidth = int(k)
				}
			}
			// mem[end-16 : end-8]
			if lo, ok := sl.Low.(*ssa.BinOp); ok && lo.Op == token.SUB {
				if hi, ok := sl.High.(*ssa.BinOp); ok && hi.Op == token.SUB && hi.X == lo.X {
					a, ok1 := constUint64(lo.Y)
					b, ok2 := constUint64(hi.Y)
					if ok1 && ok2 {
						r.sliceWidth = int(a - b)
					}
				}
			}
		}
		out = append(out, r)
	})
	return out
}

type beWrite struct {
	in    ssa.Instruction
	width int
	be    bool
	data  ssa.Value
}

func beWritesOf(fn *ssa.Function) []beWrite {
	var out []beWrite
	eachInstr(fn, func(_ *ssa.BasicBlock, in ssa.Instruction) {
		call, ok := in.(*ssa.Call)
		if !ok {
			return
		}
		f := call.Call.StaticCallee()
		if f == nil {
			return
		}
		switch {
		case f.String() == "encoding/binary.Write":
			data := call.Call.Args[2]
			if mi, ok := data.(*ssa.MakeInterface); ok {
				data = mi.X
			}
			bo := call.Call.Args[1]
			if mi, ok := bo.(*ssa.MakeInterface); ok {
				bo = mi.X
			}
			be := false
			if u, ok := bo.(*ssa.UnOp); ok {
				if g, ok := u.X.(*ssa.Global); ok && g.Name() == "BigEndian" {
					be = true
				}
			}
			out = append(out, beWrite{in, widthOf(data.Type()), be, data})
		case strings.HasPrefix(f.String(), "(encoding/binary.bigEndian).PutUint"), strings.HasPrefix(f.String(), "(encoding/binary.bigEndian).AppendUint"):
			w := 0
			switch {
			case strings.HasSuffix(f.String(), "16"):
				w = 2
			case strings.HasSuffix(f.String(), "32"):
				w = 4
			case strings.HasSuffix(f.String(), "64"):
				w = 8
			}
			out = append(out, beWrite{in, w, true, call.Call.Args[len(call.Call.Args)-1]})
		}
	})
	return out
}

// withHelpers: fn and the functions of package zap it calls statically (two
// levels), so that a record written or read by an extracted helper is still
// seen as part of fn. Functions that are anchors of their own are left out.
func withHelpers(p *Program, fn *ssa.Function) []*ssa.Function {
	seen := map[*ssa.Function]bool{fn: true}
	out := []*ssa.Function{fn}
	level := []*ssa.Function{fn}
	for depth := 0; depth < 2; depth++ {
		var next []*ssa.Function
		for _, f := range level {
			for _, cs := range callSites(f) {
				g := staticCallee(cs)
				if g == nil || seen[g] || !p.InZap(g) || len(g.Blocks) == 0 {
					continue
				}
				if g.Parent() == nil && !isNewHelper(p, g) {
					// a function the pinned tree already had (under this or
					// another name) is not a helper extracted from fn; its
					// records are judged where they were
					continue
				}
				seen[g] = true
				out = append(out, g)
				next = append(next, g)
			}
		}
		level = next
	}
	return out
}

func beWritesDeep(p *Program, fn *ssa.Function) []beWrite {
	var out []beWrite
	for _, f := range withHelpers(p, fn) {
		out = append(out, beWritesOf(f)...)
	}
	return out
}

func beReadsDeep(p *Program, fn *ssa.Function) []beRead {
	var out []beRead
	for _, f := range withHelpers(p, fn) {
		out = append(out, beReadsOf(f)...)
	}
	return out
}

func strideAddedDeep(p *Program, fn *ssa.Function, k int) bool {
	for _, f := range withHelpers(p, fn) {
		if strideAdded(f, k) {
			return true
		}
	}
	return false
}

func widthsOfWrites(ws []beWrite) []int {
	var out []int
	for _, w := range ws {
		out = append(out, w.width)
	}
	sort.Ints(out)
	return out
}

// strideAdded: some `x + k` with constant k exists whose x is (structurally) lowOf.
func strideAdded(fn *ssa.Function, k int) bool {
	found := false
	eachInstr(fn, func(_ *ssa.BasicBlock, in ssa.Instruction) {
		bo, ok := in.(*ssa.BinOp)
		if !ok || (bo.Op != token.ADD && bo.Op != token.MUL) {
			return
		}
		for _, side := range []ssa.Value{bo.X, bo.Y} {
			if c, ok := constUint64(side); ok && int(c) == k {
				found = true
			}
			if c, ok := constInt64(side); ok && int(c) == k {
				found = true
			}
		}
	})
	return found
}

func ruleR27() *Rule {
	return &Rule{
		ID:    "R27",
		Title: "RECORD-WIDTHS: fixed-width big-endian records below the footer keep their v16 widths, strides and order on the writer and on the reader side",
		Props: []string{"C09", "C04", "C02", "C03", "C05"},
		Floor: floorFor("R27"),
		Run: func(c *RuleCtx) {
			// ---- 1. field table ----------------------------------------------------
			props := []string{"C09", "C04"}
			if pfs := c.fn("persistFieldsSection"); pfs != nil {
				ws := beWritesDeep(c.p, pfs)
				got := widthsOfWrites(ws)
				allBE := true
				for _, w := range ws {
					if !w.be {
						allBE = false
					}
				}
				c.add2(fmt.Sprint(got) == "[2 8 8]" && allBE, props, "field-table/writer", c.fpos(pfs),
					"persistFieldsSection writes, big endian: per section a u16 type and a u64 address; per field a u64 record offset",
					fmt.Sprintf("fixed-width writes have widths %v (big endian: %v); v16 has [2 8 8]", got, allBE))
			}
			if lfn := c.method("SegmentBase", "loadFieldNew"); lfn != nil {
				rs := beReadsDeep(c.p, lfn)
				ok2, ok8 := false, false
				var desc []string
				for _, r := range rs {
					desc = append(desc, fmt.Sprintf("u%d over %d bytes", r.width*8, r.sliceWidth))
					if r.width == 2 && r.sliceWidth == 2 {
						ok2 = true
					}
					if r.width == 8 && r.sliceWidth == 8 {
						ok8 = true
					}
				}
				c.add2(len(rs) == 2 && ok2 && ok8 && strideAddedDeep(c.p, lfn, 2) && strideAddedDeep(c.p, lfn, 8), props, "field-table/reader", c.fpos(lfn),
					"loadFieldNew reads each (section type, address) pair as u16 + u64 big endian and advances by 2 and 8",
					"reads: "+strings.Join(desc, ", ")+fmt.Sprintf("; stride 2 present: %v, stride 8 present: %v", strideAddedDeep(c.p, lfn, 2), strideAddedDeep(c.p, lfn, 8)))
			}
			if lf := c.method("SegmentBase", "loadFieldsNew"); lf != nil {
				rs := beReadsDeep(c.p, lf)
				okc := allU64Reads(rs) && strideAddedDeep(c.p, lf, 8)
				c.add2(okc, props, "fields-index/reader", c.fpos(lf), "loadFieldsNew reads each field record offset as u64 big endian with stride 8", fmt.Sprintf("%d fixed-width reads", len(rs)))
			}
			// ---- 2. stored-document index ----------------------------------------
			props = []string{"C09", "C02"}
			nw := 0
			for _, name := range []string{"mergeStoredAndRemap", "interim.writeStoredFields"} {
				var fn *ssa.Function
				if strings.Contains(name, ".") {
					fn = c.method("interim", "writeStoredFields")
				} else {
					fn = c.fn(name)
				}
				if fn == nil {
					continue
				}
				ws := beWritesDeep(c.p, fn)
				// (alternative ways of writing the table — one Write per offset, or batches encoded with
				// PutUint64 — must all be u64 big endian)
				okc := len(ws) >= 1
				for _, wv := range ws {
					if wv.width != 8 || !wv.be {
						okc = false
					}
				}
				nw++
				c.add2(okc, props, "stored-index/writer/"+name, c.fpos(fn), name+" writes each stored-document offset as one u64 big endian", fmt.Sprintf("fixed-width writes: %v", widthsOfWrites(ws)))
			}
			if g := c.method("SegmentBase", "getDocStoredOffsets"); g != nil {
				rs := beReadsDeep(c.p, g)
				okc := allU64Reads(rs) && strideAddedDeep(c.p, g, 8)
				c.add2(okc, props, "stored-index/reader", c.fpos(g), "getDocStoredOffsets reads entry docNum of the stored index as u64 big endian at storedIndexOffset + 8*docNum", fmt.Sprintf("%d fixed-width reads", len(rs)))
			}
			if cs := c.method("SegmentBase", "copyStoredDocs"); cs != nil {
				rs := beReadsDeep(c.p, cs)
				okc := allU64Reads(rs) && strideAddedDeep(c.p, cs, 8)
				c.add2(okc, []string{"C09", "C05"}, "stored-index/copy-reader", c.fpos(cs), "copyStoredDocs walks the input's stored index as u64 big endian entries with stride 8", fmt.Sprintf("%d fixed-width reads", len(rs)))
			}
			// ---- 3. doc-value trailer --------------------------------------------
			props = []string{"C09", "C03"}
			if w := c.method("chunkedContentCoder", "Write"); w != nil {
				ws := beWritesDeep(c.p, w)
				okc := len(ws) == 2 && ws[0].width == 8 && ws[1].width == 8
				// order: first the length of the chunk-offset table (a difference), then the number of chunks (a len)
				if okc {
					first, second := ws[0], ws[1]
					if !(first.in.Block() == second.in.Block() && instrIndex(first.in) < instrIndex(second.in)) && !first.in.Block().Dominates(second.in.Block()) {
						first, second = second, first
					}
					// len(x) converted to u64: returns x
					lenOfConv := func(v ssa.Value) ssa.Value {
						if cv, ok := v.(*ssa.Convert); ok {
							if call, ok := cv.X.(*ssa.Call); ok {
								if b, ok := call.Call.Value.(*ssa.Builtin); ok && b.Name() == "len" {
									return call.Call.Args[0]
								}
							}
						}
						return nil
					}
					isBytes := func(v ssa.Value) bool {
						sl, ok := v.Type().Underlying().(*types.Slice)
						if !ok {
							return false
						}
						bt, ok := sl.Elem().Underlying().(*types.Basic)
						return ok && bt.Kind() == types.Uint8
					}
					// the table's length in bytes: a difference of two byte counts, or the length of the
					// byte buffer the offsets were just encoded into
					_, firstIsDiff := first.data.(*ssa.BinOp)
					if x := lenOfConv(first.data); x != nil && isBytes(x) {
						firstIsDiff = true
					}
					// the number of chunks: the length of a table that is not bytes
					secondIsLen := false
					if x := lenOfConv(second.data); x != nil && !isBytes(x) {
						secondIsLen = true
					}
					okc = firstIsDiff && secondIsLen
				}
				c.add2(okc, props, "dv-trailer/writer", c.fpos(w), "the doc-value block ends with [length of the chunk-offset table u64][number of chunks u64], big endian, in that order",
					fmt.Sprintf("fixed-width writes: %v", widthsOfWrites(ws)))
			}
			if r := c.method("SegmentBase", "loadFieldDocValueReader"); r != nil {
				rs := beReadsDeep(c.p, r)
				okc := len(rs) == 2
				var roles []string
				for _, x := range rs {
					if x.width != 8 || x.sliceWidth != 8 {
						okc = false
					}
					// distance of the slice's low bound from the end parameter
					dist := int64(-1)
					if lo, ok := x.low.(*ssa.BinOp); ok && lo.Op == token.SUB {
						if k, ok := constUint64(lo.Y); ok {
							dist = int64(k)
						}
					}
					// role by use: the chunk count sizes the offsets slice; the table length is subtracted
					role := "?"
					for _, ref := range *x.call.Referrers() {
						switch y := ref.(type) {
						case *ssa.BinOp:
							if y.Op == token.SUB && y.Y == ssa.Value(x.call) {
								role = "table-length"
							}
						case *ssa.Convert:
							role = "chunk-count"
						}
					}
					roles = append(roles, fmt.Sprintf("%s@-%d", role, dist))
				}
				sort.Strings(roles)
				okc = okc && fmt.Sprint(roles) == "[chunk-count@-8 table-length@-16]"
				c.add2(okc, props, "dv-trailer/reader", c.fpos(r), "loadFieldDocValueReader takes the chunk count from the last 8 bytes and the chunk-offset table length from the 8 bytes before, both u64 big endian",
					"reads: "+strings.Join(roles, ", "))
			}
			// ---- 5. the per-field record of a section (three uvarints) ----------------
			r27SectionHeader(c)
		},
	}
}

// rangeHelperBounds: v is the byte-slice result of a call to a function of the package that hands back
// `x.mem[a:b]` for two of its parameters a, b (after checking them): returns the call's arguments for a, b.
func rangeHelperBounds(v ssa.Value) (lo, hi ssa.Value, ok bool) {
	v = resolveLoad(v)
	if ex, isEx := v.(*ssa.Extract); isEx && ex.Index == 0 {
		v = ex.Tuple
	}
	call, isCall := v.(*ssa.Call)
	if !isCall {
		return nil, nil, false
	}
	f := call.Call.StaticCallee()
	if f == nil || len(f.Blocks) == 0 || f.Pkg == nil || !strings.HasPrefix(f.Pkg.Pkg.Path(), zapPkgPath) {
		return nil, nil, false
	}
	li, hiIdx := -1, -1
	n := 0
	for _, ret := range returnsOf(f) {
		if len(ret.Results) == 0 {
			return nil, nil, false
		}
		r0 := ret.Results[0]
		if isNilConst(r0) {
			continue
		}
		sl, isSl := r0.(*ssa.Slice)
		if !isSl {
			return nil, nil, false
		}
		if _, fld, _, okf := loadedField(sl.X); !okf || fld != "mem" {
			return nil, nil, false
		}
		pl, ok1 := sl.Low.(*ssa.Parameter)
		ph, ok2 := sl.High.(*ssa.Parameter)
		if !ok1 || !ok2 {
			return nil, nil, false
		}
		for i, q := range f.Params {
			if q == pl {
				li = i
			}
			if q == ph {
				hiIdx = i
			}
		}
		n++
	}
	if n == 0 || li < 0 || hiIdx < 0 || li >= len(call.Call.Args) || hiIdx >= len(call.Call.Args) {
		return nil, nil, false
	}
	return call.Call.Args[li], call.Call.Args[hiIdx], true
}

// allU64Reads: there is at least one fixed-width read and every one of them is a u64 over 8 bytes (a
// validating helper may read the same entry a second time).
func allU64Reads(rs []beRead) bool {
	if len(rs) == 0 {
		return false
	}
	for _, r := range rs {
		if r.width != 8 || r.sliceWidth != 8 {
			return false
		}
	}
	return true
}
