package main

import (
	"fmt"
	"go/token"
	"go/types"
	"os"
	"path/filepath"
	"sort"
	"strings"
	"sync"
	"time"

	"golang.org/x/tools/go/callgraph"
	"golang.org/x/tools/go/callgraph/cha"
	"golang.org/x/tools/go/callgraph/vta"
	"golang.org/x/tools/go/packages"
	"golang.org/x/tools/go/ssa"
	"golang.org/x/tools/go/ssa/ssautil"
)

const zapPkgPath = "github.com/blevesearch/zapx/v16"

// Config is one build configuration of /repo that is analysed.
type Config struct {
	Name    string
	Vectors bool
	GOOS    string // "" = host
}

var (
	cfgDefault        = Config{Name: "default"}
	cfgVectors        = Config{Name: "vectors", Vectors: true}
	cfgDefaultWindows = Config{Name: "default/windows", GOOS: "windows"}
	cfgVectorsWindows = Config{Name: "vectors/windows", Vectors: true, GOOS: "windows"}
)

func configByName(n string) (Config, bool) {
	for _, c := range []Config{cfgDefault, cfgVectors, cfgDefaultWindows, cfgVectorsWindows} {
		if c.Name == n {
			return c, true
		}
	}
	return Config{}, false
}

// Program is the resolved program of one configuration.
type Program struct {
	Cfg      Config
	RepoDir  string
	Fset     *token.FileSet
	Pkgs     []*packages.Package
	SSA      *ssa.Program
	Zap      *ssa.Package
	ZapTypes *types.Package
	ZapPkg   *packages.Package
	CG       *callgraph.Graph
	CHA      *callgraph.Graph

	ZapFuncs   []*ssa.Function          // all functions (incl. anonymous) of package zap, sorted by name
	owners     []ownerInfo              // file-owner types (owners.go), while a rule that needs them runs
	discGuards *[]guardSpec             // guarded fields discovered from writes under the struct's own mutex (rules_lock.go)
	hdrMemo    map[hdrMemoKey][]hdrItem // R27 section-header: what a function writes through the counting writer
	NumFiles   int
	NumPkgs    int
	NumAllFns  int
	NumEdges   int
	LoadSecs   float64

	funcByName map[string]*ssa.Function
	summaries  map[string]interface{}
	renamed    map[string]*ssa.Function
	renameMu   *sync.Mutex
}

func baseEnv(cfg Config) []string {
	var env []string
	for _, kv := range os.Environ() {
		k := kv
		if i := strings.IndexByte(kv, '='); i >= 0 {
			k = kv[:i]
		}
		switch k {
		case "GOFLAGS", "GOPROXY", "GOSUMDB", "GOTOOLCHAIN", "GOWORK", "GOOS", "GOARCH", "CGO_ENABLED":
			continue
		}
		env = append(env, kv)
	}
	env = append(env, "GOFLAGS=-mod=mod", "GOPROXY=off", "GOSUMDB=off", "GOTOOLCHAIN=local", "GOWORK=off")
	if cfg.GOOS != "" {
		env = append(env, "GOOS="+cfg.GOOS, "CGO_ENABLED=0")
	}
	return env
}

// loadProgram loads, type-checks and builds SSA + call graphs for one
// configuration. Any load or type error is returned as an error: a rule never
// runs on a partially typed program.
func loadProgram(repoDir string, cfg Config) (*Program, error) {
	return loadProgramOverlay(repoDir, cfg, nil)
}

// loadProgramOverlay is loadProgram with some files of the repository replaced
// in memory (used by the sensitivity self-test; /repo is never written).
func loadProgramOverlay(repoDir string, cfg Config, overlay map[string][]byte) (*Program, error) {
	t0 := time.Now()
	env := baseEnv(cfg)
	var flags []string
	var tmp string
	if cfg.Vectors {
		var err error
		sweepStaleScratch()
		tmp, err = os.MkdirTemp("", "zapxlint-stub-")
		if err != nil {
			return nil, err
		}
		defer os.RemoveAll(tmp)
		src, err := faissModuleDir(repoDir, env)
		if err != nil {
			return nil, err
		}
		stubDir := filepath.Join(tmp, "go-faiss")
		nfiles, nfuncs, err := writeFaissStub(src, stubDir)
		if err != nil {
			return nil, fmt.Errorf("faiss stub: %v", err)
		}
		if nfiles == 0 || nfuncs == 0 {
			return nil, fmt.Errorf("faiss stub: nothing generated from %s", src)
		}
		mod, err := os.ReadFile(filepath.Join(repoDir, "go.mod"))
		if err != nil {
			return nil, err
		}
		alt := string(mod) + "\nreplace " + faissModule + " => " + stubDir + "\n"
		if err := os.WriteFile(filepath.Join(tmp, "alt.mod"), []byte(alt), 0o644); err != nil {
			return nil, err
		}
		if sum, err := os.ReadFile(filepath.Join(repoDir, "go.sum")); err == nil {
			if err := os.WriteFile(filepath.Join(tmp, "alt.sum"), sum, 0o644); err != nil {
				return nil, err
			}
		}
		flags = append(flags, "-tags=vectors", "-modfile="+filepath.Join(tmp, "alt.mod"))
	}
	fset := token.NewFileSet()
	pcfg := &packages.Config{
		Mode:       packages.LoadAllSyntax,
		Dir:        repoDir,
		Env:        env,
		BuildFlags: flags,
		Fset:       fset,
		Tests:      false,
		Overlay:    overlay,
	}
	pkgs, err := packages.Load(pcfg, "./...")
	if err != nil {
		return nil, fmt.Errorf("packages.Load: %v", err)
	}
	if len(pkgs) == 0 {
		return nil, fmt.Errorf("packages.Load: zero packages")
	}
	var errs []string
	nAll := 0
	packages.Visit(pkgs, nil, func(p *packages.Package) {
		nAll++
		for _, e := range p.Errors {
			errs = append(errs, p.PkgPath+": "+e.Error())
		}
		if p.IllTyped && len(p.Errors) == 0 {
			errs = append(errs, p.PkgPath+": ill-typed")
		}
	})
	if len(errs) > 0 {
		sort.Strings(errs)
		if len(errs) > 8 {
			errs = append(errs[:8], fmt.Sprintf("... %d more", len(errs)-8))
		}
		return nil, fmt.Errorf("load/type errors in configuration %s:\n  %s", cfg.Name, strings.Join(errs, "\n  "))
	}
	prog, _ := ssautil.AllPackages(pkgs, ssa.InstantiateGenerics)
	prog.Build()

	p := &Program{Cfg: cfg, RepoDir: repoDir, Fset: fset, Pkgs: pkgs, SSA: prog, NumPkgs: nAll,
		funcByName: map[string]*ssa.Function{}, summaries: map[string]interface{}{}, renamed: map[string]*ssa.Function{}, renameMu: &sync.Mutex{}}
	progRegistry.Store(prog, p)
	for _, pk := range pkgs {
		if pk.PkgPath == zapPkgPath {
			p.ZapPkg = pk
			p.ZapTypes = pk.Types
			p.Zap = prog.Package(pk.Types)
			p.NumFiles = len(pk.CompiledGoFiles)
		}
	}
	if p.Zap == nil {
		return nil, fmt.Errorf("package %s not found among %d root packages", zapPkgPath, len(pkgs))
	}
	all := ssautil.AllFunctions(prog)
	p.NumAllFns = len(all)
	p.CHA = cha.CallGraph(prog)
	p.CG = vta.CallGraph(all, p.CHA)
	for _, n := range p.CG.Nodes {
		p.NumEdges += len(n.Out)
	}
	for fn := range all {
		if fn.Pkg == p.Zap || (fn.Pkg == nil && fn.Parent() != nil && rootParent(fn).Pkg == p.Zap) {
			if fn.Synthetic != "" && fn.Blocks == nil {
				continue
			}
			p.ZapFuncs = append(p.ZapFuncs, fn)
		}
	}
	sort.Slice(p.ZapFuncs, func(i, j int) bool {
		a, b := p.ZapFuncs[i], p.ZapFuncs[j]
		if a.String() != b.String() {
			return a.String() < b.String()
		}
		return a.Pos() < b.Pos()
	})
	for _, fn := range p.ZapFuncs {
		p.funcByName[fn.String()] = fn
	}
	p.LoadSecs = time.Since(t0).Seconds()
	return p, nil
}

func rootParent(fn *ssa.Function) *ssa.Function {
	for fn.Parent() != nil {
		fn = fn.Parent()
	}
	return fn
}

// InZap reports whether fn (or its outermost enclosing function) belongs to
// package zap.
func (p *Program) InZap(fn *ssa.Function) bool {
	if fn == nil {
		return false
	}
	r := rootParent(fn)
	return r.Pkg == p.Zap
}

// Pos renders a position relative to the repository root.
func (p *Program) Pos(pos token.Pos) string {
	if !pos.IsValid() {
		return "-"
	}
	pp := p.Fset.Position(pos)
	rel, err := filepath.Rel(p.RepoDir, pp.Filename)
	if err != nil || strings.HasPrefix(rel, "..") {
		rel = pp.Filename
	}
	return fmt.Sprintf("%s:%d", rel, pp.Line)
}

// Func looks a package-level function of zap up by name.
func (p *Program) Func(name string) *ssa.Function {
	return p.Zap.Func(name)
}

// Method looks a method of a named zap type up (pointer or value receiver).
func (p *Program) Method(typeName, method string) *ssa.Function {
	obj := p.ZapTypes.Scope().Lookup(typeName)
	if obj == nil {
		return nil
	}
	tn, ok := obj.(*types.TypeName)
	if !ok {
		return nil
	}
	named := tn.Type()
	for _, t := range []types.Type{types.NewPointer(named), named} {
		ms := p.SSA.MethodSets.MethodSet(t)
		for i := 0; i < ms.Len(); i++ {
			sel := ms.At(i)
			if sel.Obj().Name() == method {
				// only methods declared on this very type (not promoted)
				if len(sel.Index()) != 1 {
					continue
				}
				if fn := p.SSA.FuncValue(sel.Obj().(*types.Func)); fn != nil {
					return fn
				}
			}
		}
	}
	return nil
}

// Global looks a package-level variable of zap up.
func (p *Program) Global(name string) *ssa.Global {
	if m, ok := p.Zap.Members[name]; ok {
		if g, ok := m.(*ssa.Global); ok {
			return g
		}
	}
	return nil
}

// NamedType returns the named type `name` of package zap.
func (p *Program) NamedType(name string) *types.Named {
	obj := p.ZapTypes.Scope().Lookup(name)
	if obj == nil {
		return nil
	}
	n, _ := obj.Type().(*types.Named)
	return n
}

// sweepStaleScratch removes scratch directories that an aborted earlier run of
// this tool left behind (they are normally removed when the load returns).
func sweepStaleScratch() {
	for _, pat := range []string{"zapxlint-stub-*", "zapxlint-patch-*"} {
		ms, _ := filepath.Glob(filepath.Join(os.TempDir(), pat))
		for _, m := range ms {
			if fi, err := os.Stat(m); err == nil && time.Since(fi.ModTime()) > 30*time.Minute {
				os.RemoveAll(m)
			}
		}
	}
}
