package main

// R36 FREQNORM-RECORD — the freq/norm stream has a variable-shape record per
// posting: a word (frequency and has-locations flag) and, only when the
// frequency is not zero, a norm word. Writers and readers must agree on *when*
// the second word exists:
//
//   writers  a chunked-coder Add with three values (document, word, norm) is
//            reached only where the frequency encoded in the word is known
//            non-zero, and one with two values only where it is known zero;
//   readers  a function that consumes from PostingsIterator.freqNormReader
//            consumes a second word only where the frequency decoded from the
//            first is known non-zero, and finishes successfully without a
//            second consume only where it is known zero.
//
// Nothing about the values themselves is decided.

import (
	"fmt"
	"go/token"

	"golang.org/x/tools/go/ssa"
)

func ruleR36() *Rule {
	return &Rule{
		ID:    "R36",
		Title: "FREQNORM-RECORD: the norm word of a posting is written and consumed exactly when its frequency is not zero",
		Props: []string{"C01", "C06", "C07", "C09"},
		Floor: floorFor("R36"),
		Run: func(c *RuleCtx) {
			r36Writers(c)
			r36Readers(c)
			r36HasLocs(c)
		},
	}
}

// zeroTest: cond is `x == 0`, `x != 0`, `x > 0` (unsigned) or `0 < x` ...; returns x and whether
// outcome==true means "x is zero".
func zeroTest(cond ssa.Value) (x ssa.Value, trueMeansZero bool, ok bool) {
	bo, isBO := cond.(*ssa.BinOp)
	if !isBO {
		return nil, false, false
	}
	var k uint64
	var kok bool
	x = bo.X
	op := bo.Op
	if k, kok = constUint64(bo.Y); !kok {
		if k, kok = constUint64(bo.X); kok {
			x = bo.Y
			switch op {
			case token.LSS:
				op = token.GTR
			case token.GTR:
				op = token.LSS
			case token.LEQ:
				op = token.GEQ
			case token.GEQ:
				op = token.LEQ
			}
		}
	}
	if !kok {
		return nil, false, false
	}
	switch {
	case k == 0 && op == token.EQL, k == 0 && op == token.LEQ, k == 1 && op == token.LSS:
		return x, true, true
	case k == 0 && op == token.NEQ, k == 0 && op == token.GTR, k == 1 && op == token.GEQ:
		return x, false, true
	}
	return nil, false, false
}

func r36Writers(c *RuleCtx) {
	n := 0
	for _, fn := range c.p.ZapFuncs {
		type site struct {
			cs    ssa.CallInstruction
			nvals int
			freq  ssa.Value
		}
		var sites []site
		for _, cs := range callSites(fn) {
			f := staticCallee(cs)
			if f == nil || f.Name() != "Add" || f.Signature.Recv() == nil || !isNamed(f.Signature.Recv().Type(), zapPkgPath, "chunkedIntCoder") {
				continue
			}
			// variadic values: stores into the varargs array
			va := cs.Common().Args[len(cs.Common().Args)-1]
			sl, ok := va.(*ssa.Slice)
			if !ok {
				continue
			}
			al, ok := sl.X.(*ssa.Alloc)
			if !ok || al.Comment != "varargs" {
				continue
			}
			nv := 0
			var freq ssa.Value
			for _, r := range *al.Referrers() {
				ia, ok := r.(*ssa.IndexAddr)
				if !ok {
					continue
				}
				for _, r2 := range *ia.Referrers() {
					st, ok := r2.(*ssa.Store)
					if !ok || st.Addr != ssa.Value(ia) {
						continue
					}
					nv++
					if call, ok := st.Val.(*ssa.Call); ok {
						if g := call.Call.StaticCallee(); g != nil && namedFn(g, "encodeFreqHasLocs") {
							freq = call.Call.Args[0]
						}
					}
				}
			}
			if freq == nil {
				continue // not a freq/norm record (location coder)
			}
			sites = append(sites, site{cs, nv, freq})
		}
		if len(sites) == 0 {
			continue
		}
		for i, s := range sites {
			s := s
			n++
			const (
				evZero    = 1
				evNonZero = 2
			)
			condTr := func(cond ssa.Value, outcome bool, ev uint64, _ func(ssa.Value) ssa.Value) uint64 {
				x, tz, ok := zeroTest(cond)
				if !ok {
					return ev
				}
				a, b := stripConv(x), stripConv(s.freq)
				if !(a == b || sameValue(a, b) || structEq(a, b, 0) || loadsEqual(a, b) || loadsEqual(b, a)) {
					return ev
				}
				ev &^= evZero | evNonZero
				if tz == outcome {
					return ev | evZero
				}
				return ev | evNonZero
			}
			pa := newPathAnalysis(fn, func(ssa.Instruction, uint64, bool) []uint64 { return nil })
			pa.condTr = condTr
			pa.edgeTr = func(pred *ssa.BasicBlock, succIdx int, ev uint64) uint64 {
				if iff, ok := pred.Instrs[len(pred.Instrs)-1].(*ssa.If); ok && len(pred.Succs) == 2 {
					return condTr(iff.Cond, succIdx == 0, ev, nil)
				}
				return ev
			}
			pa.run(0)
			want := uint64(evNonZero)
			what := "a record with a norm (word, norm) is added only where the frequency is known to be non-zero"
			if s.nvals == 1 {
				want = evZero
				what = "a record without a norm (word only) is added only where the frequency is known to be zero"
			}
			okc := len(pa.statesBefore(s.cs)) > 0 && (s.nvals == 1 || s.nvals == 2)
			for _, ev := range pa.statesBefore(s.cs) {
				if ev&want == 0 {
					okc = false
				}
			}
			props := []string{"C06", "C09"}
			if fn.Signature.Recv() != nil {
				props = []string{"C01", "C09"}
			}
			c.add(statusOf(okc), fmt.Sprintf("writer/%s#%d", funcShortName(fn), i+1), c.pos(s.cs), "in "+funcShortName(fn)+" "+what,
				fmt.Sprintf("a freq/norm record of %d word(s) is written on a path where the frequency's zero-ness does not call for that shape: the reader, which decides by `freq == 0`, would mis-step through the stream", s.nvals), props, []string{"call: " + describeInstr(c.p, s.cs)})
		}
	}
	c.add(statusOf(n >= half(4)), "writer/sites", "-", "freq/norm record writes are found (pinned tree: 2 in writeDicts, 2 in mergeTermFreqNormLocs)", fmt.Sprintf("found %d", n), []string{"C01", "C06", "C09"}, nil)
}

func r36Readers(c *RuleCtx) {
	props := []string{"C01", "C07", "C06", "C09"}
	p := c.p
	dec := c.fn("decodeFreqHasLocs")
	if dec == nil {
		return
	}
	isConsume := func(cs ssa.CallInstruction) bool {
		f := staticCallee(cs)
		if f == nil || f.Signature.Recv() == nil || !isNamed(f.Signature.Recv().Type(), zapPkgPath, "chunkedIntDecoder") {
			return false
		}
		if f.Name() != "readUvarint" && f.Name() != "SkipUvarint" {
			return false
		}
		return len(cs.Common().Args) > 0 && isLoadOfField(cs.Common().Args[0], "PostingsIterator", "freqNormReader")
	}
	// functions that consume directly
	direct := map[*ssa.Function]bool{}
	for _, fn := range p.ZapFuncs {
		for _, cs := range callSites(fn) {
			if isConsume(cs) {
				direct[fn] = true
			}
		}
	}
	// isFreq: v is the frequency decoded from the word just consumed (result 0 of decodeFreqHasLocs,
	// possibly handed back by a helper)
	var isFreq func(v ssa.Value, depth int) bool
	isFreq = func(v ssa.Value, depth int) bool {
		if depth > 2 {
			return false
		}
		ex, ok := v.(*ssa.Extract)
		if !ok {
			return false
		}
		call, ok := ex.Tuple.(*ssa.Call)
		if !ok {
			return false
		}
		f := call.Call.StaticCallee()
		if f == dec {
			return ex.Index == 0
		}
		if f != nil && p.InZap(f) && direct[f] {
			all := true
			for _, ret := range returnsOf(f) {
				if _, ns := errorOfReturn(ret); ns == nonNil {
					continue
				}
				if ex.Index >= len(ret.Results) || !isFreq(ret.Results[ex.Index], depth+1) {
					// constants on early exits (the 1-hit shortcut) are not frequencies of this stream
					if _, isConst := ret.Results[ex.Index].(*ssa.Const); isConst {
						continue
					}
					all = false
				}
			}
			return all
		}
		return false
	}
	const (
		evFirst   = 1
		evSecond  = 2
		evZero    = 4
		evNonZero = 8
		evFailed  = 16 // the last consuming call is known to have failed on this path
	)
	// classification of consuming functions, bottom-up:
	//   complete  every successful exit that consumed is balanced (norm consumed <=> frequency non-zero)
	//   partial   some exit is unbalanced but the function hands the frequency back: its callers decide
	//   broken    some exit is unbalanced and the frequency is not handed back
	type class int
	const (
		unknown class = iota
		complete
		partial
		broken
	)
	classes := map[*ssa.Function]class{}
	findings := map[*ssa.Function][]string{}
	var classify func(fn *ssa.Function, depth int) class
	classify = func(fn *ssa.Function, depth int) class {
		if cl, done := classes[fn]; done {
			return cl
		}
		classes[fn] = complete // recursion guard
		if depth > 3 {
			return complete
		}
		// consuming callees first
		callsPartial := false
		for _, cs := range callSites(fn) {
			if f := staticCallee(cs); f != nil && f != fn && p.InZap(f) && f.Parent() == nil && consumesSomewhere(p, f, direct, 0) {
				if classify(f, depth+1) == partial {
					callsPartial = true
				}
			}
		}
		if !direct[fn] && !callsPartial {
			return complete // only calls complete readers: nothing to judge here
		}
		condTr := func(cond ssa.Value, outcome bool, ev uint64, _ func(ssa.Value) ssa.Value) uint64 {
			// err != nil of a consuming call
			if bo, ok := cond.(*ssa.BinOp); ok && (bo.Op == token.NEQ || bo.Op == token.EQL) && (isNilConst(bo.Y) || isNilConst(bo.X)) {
				other := bo.X
				if isNilConst(bo.X) {
					other = bo.Y
				}
				if ex, ok := other.(*ssa.Extract); ok {
					if call, ok := ex.Tuple.(*ssa.Call); ok && (isConsume(call) || (call.Call.StaticCallee() != nil && direct[call.Call.StaticCallee()])) {
						if (bo.Op == token.NEQ) == outcome {
							return ev | evFailed
						}
						return ev &^ evFailed
					}
				}
			}
			x, tz, ok := zeroTest(cond)
			if !ok || !isFreq(x, 0) {
				return ev
			}
			ev &^= evZero | evNonZero
			if tz == outcome {
				return ev | evZero
			}
			return ev | evNonZero
		}
		tr := func(in ssa.Instruction, ev uint64, _ bool) []uint64 {
			cs, ok := in.(ssa.CallInstruction)
			if !ok {
				return nil
			}
			if isConsume(cs) {
				if ev&evFirst == 0 {
					return []uint64{ev | evFirst}
				}
				return []uint64{ev | evSecond}
			}
			if f := staticCallee(cs); f != nil && classes[f] == partial && f != fn {
				// a partial reader: has consumed the first word
				return []uint64{ev | evFirst}
			}
			return nil
		}
		pa := newPathAnalysis(fn, tr)
		pa.condTr = condTr
		pa.edgeTr = func(pred *ssa.BasicBlock, succIdx int, ev uint64) uint64 {
			if iff, ok := pred.Instrs[len(pred.Instrs)-1].(*ssa.If); ok && len(pred.Succs) == 2 {
				return condTr(iff.Cond, succIdx == 0, ev, nil)
			}
			return ev
		}
		pa.run(0)
		var bad []string
		pa.visit(func(in ssa.Instruction, t tuple) {
			cs, ok := in.(ssa.CallInstruction)
			if !ok || !isConsume(cs) {
				return
			}
			if t.ev&evFirst != 0 && t.ev&evNonZero == 0 {
				bad = append(bad, "a second word is consumed at "+c.pos(cs)+" on a path where the frequency is not known to be non-zero")
			}
		})
		unbalanced := false
		var exitNotes []string
		handsBackFreq := false
		for _, ret := range returnsOf(fn) {
			if _, ns := errorOfReturn(ret); ns == nonNil {
				continue
			}
			for _, r := range ret.Results {
				if isFreq(r, 0) {
					handsBackFreq = true
				}
			}
			for _, ev := range pa.statesBefore(ret) {
				if ev&evFirst == 0 || ev&evFailed != 0 {
					continue
				}
				if ev&evSecond == 0 && ev&evZero == 0 {
					unbalanced = true
					exitNotes = append(exitNotes, "the function can finish at "+c.pos(ret)+" having consumed one word although the frequency is not known to be zero (the norm word stays in the stream)")
				}
			}
		}
		cl := complete
		switch {
		case len(bad) > 0:
			cl = broken
		case unbalanced && handsBackFreq:
			cl = partial
		case unbalanced:
			cl = broken
			bad = append(bad, exitNotes...)
		}
		classes[fn] = cl
		findings[fn] = uniq(bad)
		return cl
	}
	n := 0
	for _, fn := range p.ZapFuncs {
		if fn.Parent() != nil || !consumesSomewhere(p, fn, direct, 0) {
			continue
		}
		cl := classify(fn, 0)
		if !direct[fn] && cl == complete {
			continue
		}
		n++
		desc := funcShortName(fn) + " consumes the norm word of a posting exactly when the decoded frequency is not zero"
		if cl == partial {
			desc = funcShortName(fn) + " consumes the first word of a posting and hands the decoded frequency to its caller, which decides about the norm word"
		}
		c.add(statusOf(cl != broken), "reader/"+funcShortName(fn), c.fpos(fn), desc,
			"the reader's idea of the record shape differs from the writers': every later posting of the chunk is decoded from the wrong offset", props, findings[fn])
	}
	c.add(statusOf(n >= 1), "reader/sites", "-", "functions consuming the freq/norm stream are found (pinned tree: readFreqNormHasLocs, skipFreqNormReadHasLocs)", fmt.Sprintf("found %d", n), props, nil)
}

// consumesSomewhere: fn consumes from the freq/norm stream itself or calls (two
// levels) a function of package zap that does.
func consumesSomewhere(p *Program, fn *ssa.Function, direct map[*ssa.Function]bool, depth int) bool {
	if direct[fn] {
		return true
	}
	if depth >= 1 {
		return false
	}
	for _, cs := range callSites(fn) {
		if f := staticCallee(cs); f != nil && f != fn && p.InZap(f) && direct[f] {
			return true
		}
	}
	return false
}

// R36c HASLOCS-AGREES — the has-locations bit of a posting's frequency word says whether a location record
// follows for that posting in the location stream; the reader consumes one exactly when the bit is set. In
// a function that writes both, the bit and the condition under which the location record is written are
// therefore the same question about the same quantity (the number of locations of THIS hit): either the
// very same value, or two tests `q > 0` of quantities that are the same by construction (two loads of one
// field, two len() of one slice, len(s[lo:lo+n]) and n). What the quantity is, is not judged.
func r36HasLocs(c *RuleCtx) {
	props := []string{"C01", "C06", "C09"}
	p := c.p
	isCoderAdd := func(cs ssa.CallInstruction) bool {
		f := staticCallee(cs)
		return f != nil && f.Name() == "Add" && f.Signature.Recv() != nil && isNamed(f.Signature.Recv().Type(), zapPkgPath, "chunkedIntCoder")
	}
	// the frequency-word calls of fn: encodeFreqHasLocs(freq, hasLocs)
	type fsite struct {
		at    ssa.Instruction // where the word is handed to the frequency coder (or to the helper that does it)
		has   ssa.Value
		coder ssa.Value
		fn    *ssa.Function
	}
	var sites []fsite
	for _, fn := range p.ZapFuncs {
		for _, cs := range callSites(fn) {
			g := staticCallee(cs)
			if g == nil || !namedFn(g, "encodeFreqHasLocs") || len(cs.Common().Args) != 2 {
				continue
			}
			has := cs.Common().Args[1]
			// the coder this word goes to
			var coder ssa.Value
			var at ssa.Instruction = cs
			for _, cs2 := range callSites(fn) {
				if !isCoderAdd(cs2) {
					continue
				}
				for _, a := range expandedArgs(cs2.Common()) {
					if a == cs.Value() {
						coder, at = cs2.Common().Args[0], cs2
					}
				}
			}
			if prm, ok := root(has).(*ssa.Parameter); ok && fn.Parent() == nil {
				// a helper that is told the bit: its callers decide it
				pi := -1
				for i, q := range fn.Params {
					if q == prm {
						pi = i
					}
				}
				ci := -1
				if coder != nil {
					for i, q := range fn.Params {
						if root(coder) == ssa.Value(q) {
							ci = i
						}
					}
				}
				for _, call := range p.callersOf(fn) {
					if !p.InZap(call.Parent()) || pi >= len(call.Common().Args) {
						continue
					}
					var cc ssa.Value
					if ci >= 0 && ci < len(call.Common().Args) {
						cc = call.Common().Args[ci]
					}
					sites = append(sites, fsite{call, call.Common().Args[pi], cc, call.Parent()})
				}
				continue
			}
			sites = append(sites, fsite{at, has, coder, fn})
		}
	}
	n := 0
	counts := map[string]int{}
	type sk struct {
		at  ssa.Instruction
		has ssa.Value
	}
	dup := map[sk]bool{}
	for _, s := range sites {
		if dup[sk{s.at, s.has}] {
			continue
		}
		dup[sk{s.at, s.has}] = true
		fn := s.fn
		// location records: Add calls on another coder in the same function
		var locAdds []ssa.CallInstruction
		for _, cs := range callSites(fn) {
			if !isCoderAdd(cs) || cs == s.at {
				continue
			}
			if s.coder != nil && sameValue(cs.Common().Args[0], s.coder) {
				continue
			}
			isFreq := false
			for _, a := range expandedArgs(cs.Common()) {
				if call, ok := a.(*ssa.Call); ok {
					if g := call.Call.StaticCallee(); g != nil && namedFn(g, "encodeFreqHasLocs") {
						isFreq = true
					}
				}
			}
			if !isFreq {
				locAdds = append(locAdds, cs)
			}
		}
		if len(locAdds) == 0 {
			continue // the location record is written elsewhere: not judged here
		}
		// the one that comes first: it dominates the others
		var first ssa.CallInstruction
		for _, a := range locAdds {
			all := true
			for _, b := range locAdds {
				if a != b && !(a.Block() == b.Block() || a.Block().Dominates(b.Block())) {
					all = false
				}
			}
			if all {
				first = a
				break
			}
		}
		if first == nil {
			continue
		}
		n++
		direct := controlDeps(fn)
		// the tests that lie between the word and the record: they guard the record (dominate it) and
		// not the word; followed upwards through the branches that guard those tests in turn
		var between []ctrlDep
		seenDep := map[ctrlDep]bool{}
		var up func(b *ssa.BasicBlock)
		up = func(b *ssa.BasicBlock) {
			for _, d := range direct[b] {
				if seenDep[d] || !d.Branch.Dominates(first.Block()) || d.Branch == s.at.Block() || d.Branch.Dominates(s.at.Block()) {
					continue
				}
				seenDep[d] = true
				between = append(between, d)
				up(d.Branch)
			}
		}
		up(first.Block())
		var conds []string
		okAll, any := true, false
		for _, d := range between {
			cond := branchCond(d.Branch)
			if bo, ok := cond.(*ssa.BinOp); ok && bo.Op == token.LSS {
				if _, isIdx := rangeIndexOf(bo.X); isIdx {
					continue
				}
			}
			if _, _, isErr := errNilTest(cond); isErr {
				continue
			}
			any = true
			same := false
			if root(cond) == root(s.has) {
				same = d.SuccIdx == 0
			} else {
				x1, z1, ok1 := zeroTest(cond)
				x2, z2, ok2 := zeroTest(root(s.has))
				if ok1 && ok2 && sameQuantity(x1, x2, 0) {
					// the record is written on the edge that says "not zero"; the bit is set when "not zero"
					writtenWhenNonZero := (d.SuccIdx == 0) == !z1
					same = writtenWhenNonZero && !z2
				}
			}
			if !same {
				okAll = false
				conds = append(conds, "the location record is written under "+describeInstr(p, d.Branch.Instrs[len(d.Branch.Instrs)-1])+", the bit is "+valText(p, s.has))
			}
		}
		key := "haslocs/" + funcShortName(fn)
		counts[key]++
		if counts[key] > 1 {
			key += fmt.Sprintf("#%d", counts[key])
		}
		if !any {
			c.okP(props, key, c.pos(s.at), "in "+funcShortName(fn)+" no test lies between the frequency word and the location record of a posting (both are written under the same conditions): not judged further")
			continue
		}
		c.add(statusOf(okAll), key, c.pos(s.at), "in "+funcShortName(fn)+" the has-locations bit of a posting and the condition under which its location record is written are the same test of the same quantity",
			"the bit and the location record of a posting can disagree: the reader consumes a location record exactly when the bit is set, so it would read the next posting's locations (or skip this one's)", props, conds)
	}
	c.add(statusOf(n >= half(2)), "haslocs/sites", "-", "functions that write the frequency word and the location record of a posting are found (pinned tree: writeDicts, mergeTermFreqNormLocs)", fmt.Sprintf("found %d", n), props, nil)
}

// sameQuantity: two values that are equal by construction.
func sameQuantity(a, b ssa.Value, depth int) bool {
	if depth > 6 {
		return false
	}
	a, b = stripConv(root(a)), stripConv(root(b))
	a, b = root(a), root(b)
	if a == b {
		return true
	}
	lenArg := func(v ssa.Value) ssa.Value {
		if call, ok := v.(*ssa.Call); ok {
			if bi, ok := call.Call.Value.(*ssa.Builtin); ok && bi.Name() == "len" {
				return call.Call.Args[0]
			}
		}
		return nil
	}
	// len(s[lo:lo+n]) is n
	sliceLen := func(v ssa.Value) ssa.Value {
		la := lenArg(v)
		if la == nil {
			return nil
		}
		sl, ok := root(la).(*ssa.Slice)
		if !ok || sl.High == nil {
			return nil
		}
		hi, ok := sl.High.(*ssa.BinOp)
		if !ok || hi.Op != token.ADD {
			return nil
		}
		if sl.Low != nil && sameQuantity(hi.X, sl.Low, depth+1) {
			return hi.Y
		}
		if sl.Low != nil && sameQuantity(hi.Y, sl.Low, depth+1) {
			return hi.X
		}
		return nil
	}
	if n := sliceLen(a); n != nil && sameQuantity(n, b, depth+1) {
		return true
	}
	if n := sliceLen(b); n != nil && sameQuantity(a, n, depth+1) {
		return true
	}
	switch x := a.(type) {
	case *ssa.Call:
		if la, lb := lenArg(a), lenArg(b); la != nil && lb != nil {
			return sameQuantity(la, lb, depth+1)
		}
	case *ssa.Field:
		if y, ok := b.(*ssa.Field); ok {
			return x.Field == y.Field && sameQuantity(x.X, y.X, depth+1)
		}
	case *ssa.FieldAddr:
		if y, ok := b.(*ssa.FieldAddr); ok {
			return x.Field == y.Field && sameQuantity(x.X, y.X, depth+1)
		}
	case *ssa.IndexAddr:
		if y, ok := b.(*ssa.IndexAddr); ok {
			return sameQuantity(x.X, y.X, depth+1) && sameQuantity(x.Index, y.Index, depth+1)
		}
	case *ssa.UnOp:
		if y, ok := b.(*ssa.UnOp); ok && x.Op == token.MUL && y.Op == token.MUL {
			// two loads through the same address
			switch x.X.(type) {
			case *ssa.FieldAddr, *ssa.IndexAddr:
				return sameQuantity(x.X, y.X, depth+1)
			}
		}
	}
	return false
}
