package main

// R36 FREQNORM-RECORD — the freq/norm stream has a variable-shape record per
// posting: a word (frequency and has-locations flag) and, only when the
// frequency is not zero, a norm word. Writers and readers must agree on *when*
// the second word exists:
//
//   writers  a chunked-coder Add with three values (document, word, norm) is
//            reached only where the frequency encoded in the word is known
//            non-zero, and one with two values only where it is known zero;
//   readers  a function that consumes from PostingsIterator.freqNormReader
//            consumes a second word only where the frequency decoded from the
//            first is known non-zero, and finishes successfully without a
//            second consume only where it is known zero.
//
// Nothing about the values themselves is decided.

import (
	"fmt"
	"go/token"

	"golang.org/x/tools/go/ssa"
)

func ruleR36() *Rule {
	return &Rule{
		ID:    "R36",
		Title: "FREQNORM-RECORD: the norm word of a posting is written and consumed exactly when its frequency is not zero",
		Props: []string{"C01", "C06", "C07", "C09"},
		Floor: floorFor("R36"),
		Run: func(c *RuleCtx) {
			r36Writers(c)
			r36Readers(c)
		},
	}
}

// zeroTest: cond is `x == 0`, `x != 0`, `x > 0` (unsigned) or `0 < x` ...; returns x and whether
// outcome==true means "x is zero".
func zeroTest(cond ssa.Value) (x ssa.Value, trueMeansZero bool, ok bool) {
	bo, isBO := cond.(*ssa.BinOp)
	if !isBO {
		return nil, false, false
	}
	var k uint64
	var kok bool
	x = bo.X
	op := bo.Op
	if k, kok = constUint64(bo.Y); !kok {
		if k, kok = constUint64(bo.X); kok {
			x = bo.Y
			switch op {
			case token.LSS:
				op = token.GTR
			case token.GTR:
				op = token.LSS
			case token.LEQ:
				op = token.GEQ
			case token.GEQ:
				op = token.LEQ
			}
		}
	}
	if !kok {
		return nil, false, false
	}
	switch {
	case k == 0 && op == token.EQL, k == 0 && op == token.LEQ, k == 1 && op == token.LSS:
		return x, true, true
	case k == 0 && op == token.NEQ, k == 0 && op == token.GTR, k == 1 && op == token.GEQ:
		return x, false, true
	}
	return nil, false, false
}

func r36Writers(c *RuleCtx) {
	n := 0
	for _, fn := range c.p.ZapFuncs {
		type site struct {
			cs    ssa.CallInstruction
			nvals int
			freq  ssa.Value
		}
		var sites []site
		for _, cs := range callSites(fn) {
			f := staticCallee(cs)
			if f == nil || f.Name() != "Add" || f.Signature.Recv() == nil || !isNamed(f.Signature.Recv().Type(), zapPkgPath, "chunkedIntCoder") {
				continue
			}
			// variadic values: stores into the varargs array
			va := cs.Common().Args[len(cs.Common().Args)-1]
			sl, ok := va.(*ssa.Slice)
			if !ok {
				continue
			}
			al, ok := sl.X.(*ssa.Alloc)
			if !ok || al.Comment != "varargs" {
				continue
			}
			nv := 0
			var freq ssa.Value
			for _, r := range *al.Referrers() {
				ia, ok := r.(*ssa.IndexAddr)
				if !ok {
					continue
				}
				for _, r2 := range *ia.Referrers() {
					st, ok := r2.(*ssa.Store)
					if !ok || st.Addr != ssa.Value(ia) {
						continue
					}
					nv++
					if call, ok := st.Val.(*ssa.Call); ok {
						if g := call.Call.StaticCallee(); g != nil && namedFn(g, "encodeFreqHasLocs") {
							freq = call.Call.Args[0]
						}
					}
				}
			}
			if freq == nil {
				continue // not a freq/norm record (location coder)
			}
			sites = append(sites, site{cs, nv, freq})
		}
		if len(sites) == 0 {
			continue
		}
		for i, s := range sites {
			s := s
			n++
			const (
				evZero    = 1
				evNonZero = 2
			)
			condTr := func(cond ssa.Value, outcome bool, ev uint64, _ func(ssa.Value) ssa.Value) uint64 {
				x, tz, ok := zeroTest(cond)
				if !ok {
					return ev
				}
				a, b := stripConv(x), stripConv(s.freq)
				if !(a == b || sameValue(a, b) || structEq(a, b, 0) || loadsEqual(a, b) || loadsEqual(b, a)) {
					return ev
				}
				ev &^= evZero | evNonZero
				if tz == outcome {
					return ev | evZero
				}
				return ev | evNonZero
			}
			pa := newPathAnalysis(fn, func(ssa.Instruction, uint64, bool) []uint64 { return nil })
			pa.condTr = condTr
			pa.edgeTr = func(pred *ssa.BasicBlock, succIdx int, ev uint64) uint64 {
				if iff, ok := pred.Instrs[len(pred.Instrs)-1].(*ssa.If); ok && len(pred.Succs) == 2 {
					return condTr(iff.Cond, succIdx == 0, ev, nil)
				}
				return ev
			}
			pa.run(0)
			want := uint64(evNonZero)
			what := "a record with a norm (word, norm) is added only where the frequency is known to be non-zero"
			if s.nvals == 1 {
				want = evZero
				what = "a record without a norm (word only) is added only where the frequency is known to be zero"
			}
			okc := len(pa.statesBefore(s.cs)) > 0 && (s.nvals == 1 || s.nvals == 2)
			for _, ev := range pa.statesBefore(s.cs) {
				if ev&want == 0 {
					okc = false
				}
			}
			props := []string{"C06", "C09"}
			if fn.Signature.Recv() != nil {
				props = []string{"C01", "C09"}
			}
			c.add(statusOf(okc), fmt.Sprintf("writer/%s#%d", funcShortName(fn), i+1), c.pos(s.cs), "in "+funcShortName(fn)+" "+what,
				fmt.Sprintf("a freq/norm record of %d word(s) is written on a path where the frequency's zero-ness does not call for that shape: the reader, which decides by `freq == 0`, would mis-step through the stream", s.nvals), props, []string{"call: " + describeInstr(c.p, s.cs)})
		}
	}
	c.add(statusOf(n >= half(4)), "writer/sites", "-", "freq/norm record writes are found (pinned tree: 2 in writeDicts, 2 in mergeTermFreqNormLocs)", fmt.Sprintf("found %d", n), []string{"C01", "C06", "C09"}, nil)
}

func r36Readers(c *RuleCtx) {
	props := []string{"C01", "C07", "C06", "C09"}
	p := c.p
	dec := c.fn("decodeFreqHasLocs")
	if dec == nil {
		return
	}
	isConsume := func(cs ssa.CallInstruction) bool {
		f := staticCallee(cs)
		if f == nil || f.Signature.Recv() == nil || !isNamed(f.Signature.Recv().Type(), zapPkgPath, "chunkedIntDecoder") {
			return false
		}
		if f.Name() != "readUvarint" && f.Name() != "SkipUvarint" {
			return false
		}
		return len(cs.Common().Args) > 0 && isLoadOfField(cs.Common().Args[0], "PostingsIterator", "freqNormReader")
	}
	// functions that consume directly
	direct := map[*ssa.Function]bool{}
	for _, fn := range p.ZapFuncs {
		for _, cs := range callSites(fn) {
			if isConsume(cs) {
				direct[fn] = true
			}
		}
	}
	// isFreq: v is the frequency decoded from the word just consumed (result 0 of decodeFreqHasLocs,
	// possibly handed back by a helper)
	var isFreq func(v ssa.Value, depth int) bool
	isFreq = func(v ssa.Value, depth int) bool {
		if depth > 2 {
			return false
		}
		ex, ok := v.(*ssa.Extract)
		if !ok {
			return false
		}
		call, ok := ex.Tuple.(*ssa.Call)
		if !ok {
			return false
		}
		f := call.Call.StaticCallee()
		if f == dec {
			return ex.Index == 0
		}
		if f != nil && p.InZap(f) && direct[f] {
			all := true
			for _, ret := range returnsOf(f) {
				if _, ns := errorOfReturn(ret); ns == nonNil {
					continue
				}
				if ex.Index >= len(ret.Results) || !isFreq(ret.Results[ex.Index], depth+1) {
					// constants on early exits (the 1-hit shortcut) are not frequencies of this stream
					if _, isConst := ret.Results[ex.Index].(*ssa.Const); isConst {
						continue
					}
					all = false
				}
			}
			return all
		}
		return false
	}
	const (
		evFirst   = 1
		evSecond  = 2
		evZero    = 4
		evNonZero = 8
		evFailed  = 16 // the last consuming call is known to have failed on this path
	)
	// classification of consuming functions, bottom-up:
	//   complete  every successful exit that consumed is balanced (norm consumed <=> frequency non-zero)
	//   partial   some exit is unbalanced but the function hands the frequency back: its callers decide
	//   broken    some exit is unbalanced and the frequency is not handed back
	type class int
	const (
		unknown class = iota
		complete
		partial
		broken
	)
	classes := map[*ssa.Function]class{}
	findings := map[*ssa.Function][]string{}
	var classify func(fn *ssa.Function, depth int) class
	classify = func(fn *ssa.Function, depth int) class {
		if cl, done := classes[fn]; done {
			return cl
		}
		classes[fn] = complete // recursion guard
		if depth > 3 {
			return complete
		}
		// consuming callees first
		callsPartial := false
		for _, cs := range callSites(fn) {
			if f := staticCallee(cs); f != nil && f != fn && p.InZap(f) && f.Parent() == nil && consumesSomewhere(p, f, direct, 0) {
				if classify(f, depth+1) == partial {
					callsPartial = true
				}
			}
		}
		if !direct[fn] && !callsPartial {
			return complete // only calls complete readers: nothing to judge here
		}
		condTr := func(cond ssa.Value, outcome bool, ev uint64, _ func(ssa.Value) ssa.Value) uint64 {
			// err != nil of a consuming call
			if bo, ok := cond.(*ssa.BinOp); ok && (bo.Op == token.NEQ || bo.Op == token.EQL) && (isNilConst(bo.Y) || isNilConst(bo.X)) {
				other := bo.X
				if isNilConst(bo.X) {
					other = bo.Y
				}
				if ex, ok := other.(*ssa.Extract); ok {
					if call, ok := ex.Tuple.(*ssa.Call); ok && (isConsume(call) || (call.Call.StaticCallee() != nil && direct[call.Call.StaticCallee()])) {
						if (bo.Op == token.NEQ) == outcome {
							return ev | evFailed
						}
						return ev &^ evFailed
					}
				}
			}
			x, tz, ok := zeroTest(cond)
			if !ok || !isFreq(x, 0) {
				return ev
			}
			ev &^= evZero | evNonZero
			if tz == outcome {
				return ev | evZero
			}
			return ev | evNonZero
		}
		tr := func(in ssa.Instruction, ev uint64, _ bool) []uint64 {
			cs, ok := in.(ssa.CallInstruction)
			if !ok {
				return nil
			}
			if isConsume(cs) {
				if ev&evFirst == 0 {
					return []uint64{ev | evFirst}
				}
				return []uint64{ev | evSecond}
			}
			if f := staticCallee(cs); f != nil && classes[f] == partial && f != fn {
				// a partial reader: has consumed the first word
				return []uint64{ev | evFirst}
			}
			return nil
		}
		pa := newPathAnalysis(fn, tr)
		pa.condTr = condTr
		pa.edgeTr = func(pred *ssa.BasicBlock, succIdx int, ev uint64) uint64 {
			if iff, ok := pred.Instrs[len(pred.Instrs)-1].(*ssa.If); ok && len(pred.Succs) == 2 {
				return condTr(iff.Cond, succIdx == 0, ev, nil)
			}
			return ev
		}
		pa.run(0)
		var bad []string
		pa.visit(func(in ssa.Instruction, t tuple) {
			cs, ok := in.(ssa.CallInstruction)
			if !ok || !isConsume(cs) {
				return
			}
			if t.ev&evFirst != 0 && t.ev&evNonZero == 0 {
				bad = append(bad, "a second word is consumed at "+c.pos(cs)+" on a path where the frequency is not known to be non-zero")
			}
		})
		unbalanced := false
		var exitNotes []string
		handsBackFreq := false
		for _, ret := range returnsOf(fn) {
			if _, ns := errorOfReturn(ret); ns == nonNil {
				continue
			}
			for _, r := range ret.Results {
				if isFreq(r, 0) {
					handsBackFreq = true
				}
			}
			for _, ev := range pa.statesBefore(ret) {
				if ev&evFirst == 0 || ev&evFailed != 0 {
					continue
				}
				if ev&evSecond == 0 && ev&evZero == 0 {
					unbalanced = true
					exitNotes = append(exitNotes, "the function can finish at "+c.pos(ret)+" having consumed one word although the frequency is not known to be zero (the norm word stays in the stream)")
				}
			}
		}
		cl := complete
		switch {
		case len(bad) > 0:
			cl = broken
		case unbalanced && handsBackFreq:
			cl = partial
		case unbalanced:
			cl = broken
			bad = append(bad, exitNotes...)
		}
		classes[fn] = cl
		findings[fn] = uniq(bad)
		return cl
	}
	n := 0
	for _, fn := range p.ZapFuncs {
		if fn.Parent() != nil || !consumesSomewhere(p, fn, direct, 0) {
			continue
		}
		cl := classify(fn, 0)
		if !direct[fn] && cl == complete {
			continue
		}
		n++
		desc := funcShortName(fn) + " consumes the norm word of a posting exactly when the decoded frequency is not zero"
		if cl == partial {
			desc = funcShortName(fn) + " consumes the first word of a posting and hands the decoded frequency to its caller, which decides about the norm word"
		}
		c.add(statusOf(cl != broken), "reader/"+funcShortName(fn), c.fpos(fn), desc,
			"the reader's idea of the record shape differs from the writers': every later posting of the chunk is decoded from the wrong offset", props, findings[fn])
	}
	c.add(statusOf(n >= 1), "reader/sites", "-", "functions consuming the freq/norm stream are found (pinned tree: readFreqNormHasLocs, skipFreqNormReadHasLocs)", fmt.Sprintf("found %d", n), props, nil)
}

// consumesSomewhere: fn consumes from the freq/norm stream itself or calls (two
// levels) a function of package zap that does.
func consumesSomewhere(p *Program, fn *ssa.Function, direct map[*ssa.Function]bool, depth int) bool {
	if direct[fn] {
		return true
	}
	if depth >= 1 {
		return false
	}
	for _, cs := range callSites(fn) {
		if f := staticCallee(cs); f != nil && f != fn && p.InZap(f) && direct[f] {
			return true
		}
	}
	return false
}
