package main

// R8 CANCEL — cancellation is an error like any other.
// R16 FIELD-REC-0 — the reader's "absent" sentinel is not a writable value.

import (
	"fmt"
	"go/token"
	"go/types"
	"strings"

	"golang.org/x/tools/go/ssa"
)

// pollFuncs: package-level zap functions func(chan struct{}) bool that do a
// non-blocking receive on their parameter (isClosed).
func (p *Program) pollFuncs() []*ssa.Function {
	var out []*ssa.Function
	for _, fn := range p.ZapFuncs {
		if fn.Parent() != nil || fn.Signature.Recv() != nil {
			continue
		}
		sig := fn.Signature
		if sig.Params().Len() != 1 || sig.Results().Len() != 1 {
			continue
		}
		if _, ok := sig.Params().At(0).Type().Underlying().(*types.Chan); !ok {
			continue
		}
		if sig.Results().At(0).Type().Underlying().String() != "bool" {
			continue
		}
		has := false
		eachInstr(fn, func(_ *ssa.BasicBlock, in ssa.Instruction) {
			if s, ok := in.(*ssa.Select); ok && !s.Blocking {
				has = true
			}
		})
		if has {
			out = append(out, fn)
		}
	}
	return out
}

// errPollFuncs: package-level functions func(chan struct{}) error that poll (directly, or through a bool
// poll) and answer with the closed error exactly when the channel is closed: every return is either
// seg.ErrClosed or nil, both occur (`errIfClosed`).
func (p *Program) errPollFuncs(boolPolls map[*ssa.Function]bool) []*ssa.Function {
	var out []*ssa.Function
	for _, fn := range p.ZapFuncs {
		if fn.Parent() != nil || fn.Signature.Recv() != nil || len(fn.Blocks) == 0 {
			continue
		}
		sig := fn.Signature
		if sig.Params().Len() != 1 || sig.Results().Len() != 1 || !isErrorType(sig.Results().At(0).Type()) {
			continue
		}
		if _, ok := sig.Params().At(0).Type().Underlying().(*types.Chan); !ok {
			continue
		}
		polls := false
		eachInstr(fn, func(_ *ssa.BasicBlock, in ssa.Instruction) {
			if sel, ok := in.(*ssa.Select); ok && !sel.Blocking {
				polls = true
			}
			if cs, ok := in.(ssa.CallInstruction); ok && boolPolls[staticCallee(cs)] && len(cs.Common().Args) == 1 && cs.Common().Args[0] == ssa.Value(fn.Params[0]) {
				polls = true
			}
		})
		if !polls {
			continue
		}
		nClosed, nNil, other := 0, 0, 0
		for _, ret := range returnsOf(fn) {
			v := returnedValue(ret, 0)
			switch {
			case isErrClosedValue(v):
				nClosed++
			case isNilConst(v):
				nNil++
			default:
				other++
			}
		}
		if nClosed > 0 && nNil > 0 && other == 0 {
			out = append(out, fn)
		}
	}
	return out
}

func isErrClosedValue(v ssa.Value) bool {
	u, ok := v.(*ssa.UnOp)
	if !ok || u.Op != token.MUL {
		return false
	}
	g, ok := u.X.(*ssa.Global)
	return ok && g.Name() == "ErrClosed" && g.Pkg != nil && strings.HasPrefix(g.Pkg.Pkg.Path(), "github.com/blevesearch/scorch_segment_api")
}

// straightLineToReturn follows unconditional jumps from b and returns the
// instructions on the way and the final Return (nil if the chain branches).
func straightLineToReturn(b *ssa.BasicBlock) ([]ssa.Instruction, *ssa.Return) {
	var ins []ssa.Instruction
	seen := map[*ssa.BasicBlock]bool{}
	for b != nil && !seen[b] {
		seen[b] = true
		for _, in := range b.Instrs {
			switch x := in.(type) {
			case *ssa.Return:
				return ins, x
			case *ssa.Jump:
			case *ssa.If:
				return ins, nil
			default:
				ins = append(ins, in)
			}
		}
		if len(b.Succs) != 1 {
			return ins, nil
		}
		b = b.Succs[0]
	}
	return ins, nil
}

func ruleR8() *Rule {
	return &Rule{
		ID:    "R8",
		Title: "CANCEL: every cancellation poll returns the closed error without writing; a poll precedes the first write",
		Props: []string{"C18"},
		Floor: floorFor("R8"),
		Run: func(c *RuleCtx) {
			polls := c.p.pollFuncs()
			if len(polls) == 0 {
				c.undecided("anchor/poll-function", "-", "the cancellation poll function (non-blocking receive on a chan struct{}) is found", "no such function in package zap")
				return
			}
			isPoll := map[*ssa.Function]bool{}
			for _, f := range polls {
				isPoll[f] = true
			}
			// polls that answer with the closed error themselves
			isErrPoll := map[*ssa.Function]bool{}
			for _, f := range c.p.errPollFuncs(isPoll) {
				isErrPoll[f] = true
			}
			mayWrite := c.p.mayWriteFuncs()
			type pollSite struct {
				site  *ssa.Call
				iff   *ssa.If
				taken *ssa.BasicBlock // successor when the channel is closed
				other *ssa.BasicBlock
			}
			sitesByFn := map[*ssa.Function][]pollSite{}
			counts := map[string]int{}
			total := 0
			for _, fn := range c.p.ZapFuncs {
				for _, cs := range callSites(fn) {
					call, ok := cs.(*ssa.Call)
					if !ok || !(isPoll[staticCallee(cs)] || isErrPoll[staticCallee(cs)]) {
						continue
					}
					if isPoll[staticCallee(cs)] && isErrPoll[fn] {
						continue // the poll inside the error-poll helper: judged by the shape of the helper
					}
					total++
					fname := funcShortName(fn)
					counts[fname]++
					key := fmt.Sprintf("poll/%s#%d", fname, counts[fname])
					// the result must feed exactly a branch
					var iff *ssa.If
					neg := false
					okUse := true
					errPoll := isErrPoll[staticCallee(cs)]
					for _, r := range *call.Referrers() {
						switch x := r.(type) {
						case *ssa.If:
							iff = x
						case *ssa.BinOp:
							// `if cerr := errIfClosed(ch); cerr != nil { return ..., cerr }`
							if errPoll && (x.Op == token.NEQ || x.Op == token.EQL) && (isNilConst(x.X) || isNilConst(x.Y)) {
								for _, r2 := range *x.Referrers() {
									if i2, ok := r2.(*ssa.If); ok {
										iff, neg = i2, x.Op == token.EQL
									}
								}
							} else {
								okUse = false
							}
						case *ssa.Return, *ssa.Phi, *ssa.Store:
							if !errPoll {
								okUse = false
							}
						case *ssa.UnOp:
							if x.Op == token.NOT {
								for _, r2 := range *x.Referrers() {
									if i2, ok := r2.(*ssa.If); ok {
										iff, neg = i2, true
									}
								}
							} else {
								okUse = false
							}
						case *ssa.DebugRef:
						default:
							okUse = false
						}
					}
					if iff == nil || !okUse {
						c.bad(key+"/branch", c.pos(cs), "the poll result decides a branch", "the result of the cancellation poll is not (only) the condition of a branch: a closed channel may be ignored", "call: "+describeInstr(c.p, cs))
						continue
					}
					b := iff.Block()
					taken, other := b.Succs[0], b.Succs[1]
					if neg {
						taken, other = other, taken
					}
					sitesByFn[fn] = append(sitesByFn[fn], pollSite{call, iff, taken, other})
					ins, ret := straightLineToReturn(taken)
					var heldAtRet *errPathState
					if ret == nil {
						// `err = seg.ErrClosed; break` … `if err != nil { cleanup; return err }`: the way to
						// the return goes through tests of the variable that holds the closed error
						var seed ssa.Value
						if errPoll {
							seed = call
						}
						ins, ret, heldAtRet = errDirectedToReturn(taken, b, seed)
					}
					if ret == nil {
						c.bad(key+"/returns", c.pos(cs), "the closed branch of the poll returns", "the branch taken when the channel is closed does not lead straight to a return (e.g. break/continue): the merge would go on and may report success", "call: "+describeInstr(c.p, cs))
						continue
					}
					ev, _ := errorOfReturn(ret)
					if ev != nil && heldAtRet != nil && heldAtRet.holds(ev) {
						// the variable that was given the closed error is what is returned
					} else if ev == nil || !(isErrClosedValue(ev) || (errPoll && (sameValue(ev, call) || sameValue(resolveLoad(ev), call)))) {
						c.bad(key+"/returns-closed-error", c.pos(ret), "the closed branch returns the closed error (seg.ErrClosed)", "the return on the cancelled branch does not return seg.ErrClosed: the caller would not run its cleanup / would report success for an incomplete file", "exit: "+describeInstr(c.p, ret))
						continue
					}
					wrote := ""
					for _, in := range ins {
						if cs2, ok := in.(ssa.CallInstruction); ok {
							for _, f := range c.p.calleesAt(cs2) {
								if mayWrite[f] {
									wrote = describeInstr(c.p, in)
								}
							}
						}
					}
					c.check(wrote == "", key, c.pos(cs), "poll in "+fname+": closed channel => return seg.ErrClosed, nothing written in between",
						"a call that can write runs between the poll and the return of the closed error", wrote)
				}
			}
			want := 7
			if c.p.Cfg.Vectors {
				want = 10
			}
			c.check(total >= half(want), "poll-sites", "-", fmt.Sprintf("cancellation poll sites are found (confirmed by hand: %d)", want), fmt.Sprintf("found only %d", total))

			// (b) in mergeToWriter a poll dominates every call that can write
			mtw := c.fn("mergeToWriter")
			if mtw == nil {
				return
			}
			ps := sitesByFn[mtw]
			if len(ps) == 0 {
				// a poll in every caller, in front of the call, serves the same purpose
				inCallers := true
				nCallers := 0
				for _, cs := range c.p.callersOf(mtw) {
					caller := cs.Parent()
					if !c.p.InZap(caller) {
						continue
					}
					nCallers++
					found := false
					for _, ps2 := range sitesByFn[caller] {
						if ps2.iff.Block().Dominates(cs.Block()) && !ps2.taken.Dominates(cs.Block()) {
							found = true
						}
					}
					if !found {
						inCallers = false
					}
				}
				c.check(inCallers && nCallers > 0, "mergeToWriter/poll-before-first-write", c.fpos(mtw), "the close channel is polled before the merge's first write (inside mergeToWriter or in front of every call of it)", "no cancellation poll precedes the first write: a merge cancelled before the call would still fill the file")
				return
			}
			n := 0
			for _, cs := range callSites(mtw) {
				can := false
				for _, f := range c.p.calleesAt(cs) {
					if mayWrite[f] && !isPoll[f] {
						can = true
					}
				}
				// a library routine that is handed nothing that can write (fmt.Errorf formats into a buffer
				// of its own) does not write to the output
				if can && !callCarriesWriter(c.p, cs) {
					can = false
				}
				if !can {
					continue
				}
				n++
				dom := false
				for _, p := range ps {
					pb := p.iff.Block()
					if pb.Dominates(cs.Block()) && !p.taken.Dominates(cs.Block()) {
						dom = true
					}
				}
				c.check(dom, fmt.Sprintf("mergeToWriter/poll-before-write/%s", strings.TrimPrefix(calleeName(cs), zapPkgPath+".")), c.pos(cs),
					"a cancellation poll dominates this writing call of mergeToWriter (a merge cancelled beforehand writes nothing)",
					"this call can write although no poll of the close channel has been passed on the way", "call: "+describeInstr(c.p, cs))
			}
			c.check(n >= 1, "mergeToWriter/writing-calls", c.fpos(mtw), "writing calls of mergeToWriter are found (pinned tree: 3; fewer when they are grouped into a helper)", fmt.Sprintf("found %d", n))
		},
	}
}

func ruleR16() *Rule {
	return &Rule{
		ID:    "R16",
		Title: "FIELD-REC-0: the merge cannot write the field table at offset 0 (the reader's 'absent' sentinel)",
		Props: []string{"C05"},
		Floor: floorFor("R16"),
		Run: func(c *RuleCtx) {
			// (i) does the reader still treat offset 0 as "absent"?
			lfn := c.method("SegmentBase", "loadFieldNew")
			mtw := c.fn("mergeToWriter")
			pfs := c.fn("persistFieldsSection")
			if lfn == nil || mtw == nil || pfs == nil {
				return
			}
			sentinel := false
			for _, b := range lfn.Blocks {
				iff, ok := b.Instrs[len(b.Instrs)-1].(*ssa.If)
				if !ok {
					continue
				}
				bo, ok := iff.Cond.(*ssa.BinOp)
				if !ok || bo.Op != token.EQL {
					continue
				}
				var other ssa.Value
				if k, ok := constUint64(bo.Y); ok && k == 0 {
					other = bo.X
				} else if k, ok := constUint64(bo.X); ok && k == 0 {
					other = bo.Y
				}
				if _, isParam := other.(*ssa.Parameter); !isParam {
					continue
				}
				if _, ret := straightLineToReturn(b.Succs[0]); ret != nil {
					if _, ns := errorOfReturn(ret); ns == isNil {
						sentinel = true
					}
				}
			}
			c.ok("reader-sentinel", c.fpos(lfn), fmt.Sprintf("reader side examined: loadFieldNew treats a field-record offset of 0 as 'field absent': %v", sentinel))
			if !sentinel {
				c.ok("mergeToWriter/field-table-at-offset-0", c.fpos(mtw), "the reader has no 'absent' sentinel any more: nothing to require of the merge writer")
				return
			}
			mayWrite := c.p.mayWriteFuncs()
			const evWrote = 1
			tr := func(in ssa.Instruction, ev uint64, _ bool) []uint64 {
				cs, ok := in.(ssa.CallInstruction)
				if !ok {
					return nil
				}
				if f := staticCallee(cs); f == pfs {
					return nil
				}
				for _, f := range c.p.calleesAt(cs) {
					if mayWrite[f] {
						return []uint64{ev | evWrote}
					}
				}
				return nil
			}
			pa := newPathAnalysis(mtw, tr)
			pa.run(0)
			n := 0
			for _, cs := range callSites(mtw) {
				if staticCallee(cs) != pfs {
					continue
				}
				n++
				okc := true
				for _, ev := range pa.statesBefore(cs) {
					if ev&evWrote == 0 {
						okc = false
					}
				}
				c.check(okc, "mergeToWriter/field-table-at-offset-0", c.pos(cs),
					"every path of mergeToWriter to persistFieldsSection first passes a call that writes to the output (so the first field record is not at offset 0)",
					"a path reaches persistFieldsSection with nothing written before (the no-survivor path): the `_id` record is written at offset 0, which loadFieldNew reads back as 'absent' — reopened segment loses `_id`, field ids shift",
					"call: "+describeInstr(c.p, cs))
			}
			if n == 0 {
				c.undecided("mergeToWriter/field-table-call", c.fpos(mtw), "mergeToWriter calls persistFieldsSection", "call not found")
			}
		},
	}
}

// callCarriesWriter: the callee is a function of the package (which may reach the output through what it
// is given), or the receiver / some argument has a Write method.
func callCarriesWriter(p *Program, cs ssa.CallInstruction) bool {
	for _, f := range p.calleesAt(cs) {
		if p.InZap(f) {
			return true
		}
	}
	hasWrite := func(t types.Type) bool {
		for _, tt := range []types.Type{t, types.NewPointer(t)} {
			ms := types.NewMethodSet(tt)
			for i := 0; i < ms.Len(); i++ {
				if ms.At(i).Obj().Name() == "Write" {
					return true
				}
			}
		}
		return false
	}
	cc := cs.Common()
	if cc.IsInvoke() && hasWrite(cc.Value.Type()) {
		return true
	}
	for _, a := range cc.Args {
		if hasWrite(a.Type()) {
			return true
		}
		if mi, ok := a.(*ssa.MakeInterface); ok && hasWrite(mi.X.Type()) {
			return true
		}
	}
	return false
}

// errDirectedToReturn follows the only way on from block b (entered from pred) given that the closed
// error (a load of seg.ErrClosed met on the way, or seed) is non-nil: unconditional jumps, and branches
// that test a variable holding it. Returns the instructions passed, the return reached (nil if the way
// forks on something else) and what holds the error there.
func errDirectedToReturn(b, pred *ssa.BasicBlock, seed ssa.Value) ([]ssa.Instruction, *ssa.Return, *errPathState) {
	st := &errPathState{nn: map[ssa.Value]bool{}, cells: map[*ssa.Alloc]bool{}}
	if seed != nil {
		st.nn[seed] = true
	}
	var ins []ssa.Instruction
	seen := map[*ssa.BasicBlock]int{}
	for b != nil && seen[b] < 2 {
		seen[b]++
		if pred != nil {
			st.enter(pred, b)
		}
		for _, in := range b.Instrs {
			if v, ok := in.(ssa.Value); ok && isErrClosedValue(v) {
				st.nn[v] = true
			}
			st.step(in)
			switch x := in.(type) {
			case *ssa.Return:
				return ins, x, st
			case *ssa.Jump, *ssa.If, *ssa.Phi, *ssa.DebugRef:
			default:
				ins = append(ins, in)
			}
		}
		succs := st.branch(b)
		if len(succs) != 1 {
			return ins, nil, nil
		}
		pred, b = b, succs[0]
	}
	return ins, nil, nil
}
