package main

// R30 CHUNK-RULE — the chunk-size rule is part of the v16 format.
//
// getChunkSize is a loop-free function of three integers. The rule enumerates
// its paths, turns the branch conditions of each path into intervals on the
// parameters (so `mode <= 1024` after `mode == 0` failed is mode in [1,1024],
// whatever mixture of switch/if and </<= was used) plus zero-tests of derived
// expressions, writes the returned expression in a canonical form (commutative
// operands sorted, conversions dropped) and compares the resulting set of
// (region -> result) with the documented v16 rule. Nothing is evaluated.
//
// A rewrite that computes the same function through different arithmetic
// (shifts instead of divisions, say) is reported as undecided: the rule reads
// the comparison/division idioms only.

import (
	"fmt"
	"go/token"
	"math"
	"sort"
	"strings"

	"golang.org/x/tools/go/ssa"
)

type interval struct{ lo, hi uint64 }

func (iv interval) String() string {
	switch {
	case iv.lo == 0 && iv.hi == math.MaxUint64:
		return "any"
	case iv.lo == iv.hi:
		return fmt.Sprintf("=%d", iv.lo)
	case iv.hi == math.MaxUint64:
		return fmt.Sprintf(">=%d", iv.lo)
	case iv.lo == 0:
		return fmt.Sprintf("<=%d", iv.hi)
	}
	return fmt.Sprintf("%d..%d", iv.lo, iv.hi)
}

// canon renders an integer expression over the parameters canonically.
func canon(v ssa.Value, names map[ssa.Value]string, depth int) string {
	if depth > 8 {
		return "?"
	}
	if n, ok := names[v]; ok {
		return n
	}
	switch x := v.(type) {
	case *ssa.Const:
		if k, ok := constUint64(x); ok {
			return fmt.Sprint(k)
		}
		return "?const"
	case *ssa.Convert:
		return canon(x.X, names, depth+1)
	case *ssa.ChangeType:
		return canon(x.X, names, depth+1)
	case *ssa.BinOp:
		a, b := canon(x.X, names, depth+1), canon(x.Y, names, depth+1)
		op := ""
		switch x.Op {
		case token.ADD:
			op = "add"
		case token.MUL:
			op = "mul"
		case token.QUO:
			op = "quo"
		case token.SUB:
			op = "sub"
		case token.REM:
			op = "rem"
		default:
			return "?op" + x.Op.String()
		}
		if (op == "add" || op == "mul") && b < a {
			a, b = b, a
		}
		return op + "(" + a + "," + b + ")"
	case *ssa.Call:
		// a pure arithmetic helper (`chunksNeeded(cardinality)`: one block, one return of an expression
		// over its parameters) is the expression it returns, with the arguments in place of the parameters
		f := x.Call.StaticCallee()
		if f == nil || len(f.Blocks) != 1 || len(f.Params) != len(x.Call.Args) || f.Signature.Results().Len() != 1 {
			return "?call"
		}
		ret, ok := f.Blocks[0].Instrs[len(f.Blocks[0].Instrs)-1].(*ssa.Return)
		if !ok || len(ret.Results) != 1 {
			return "?call"
		}
		for _, in := range f.Blocks[0].Instrs {
			switch in.(type) {
			case *ssa.BinOp, *ssa.Convert, *ssa.ChangeType, *ssa.Return, *ssa.DebugRef:
			default:
				return "?call"
			}
		}
		inner := map[ssa.Value]string{}
		for i, p := range f.Params {
			inner[p] = canon(x.Call.Args[i], names, depth+1)
		}
		return canon(ret.Results[0], inner, depth+1)
	}
	return "?"
}

type chunkPath struct {
	region map[string]interval // parameter name -> interval
	zero   map[string]bool     // canonical expression -> must be zero (true) / non-zero (false)
	result string
	isErr  bool
}

func (cp chunkPath) String() string {
	var parts []string
	for _, n := range []string{"mode", "card", "docs"} {
		if iv, ok := cp.region[n]; ok && iv.String() != "any" {
			parts = append(parts, n+iv.String())
		}
	}
	var zs []string
	for e, z := range cp.zero {
		if z {
			zs = append(zs, e+"==0")
		} else {
			zs = append(zs, e+"!=0")
		}
	}
	sort.Strings(zs)
	parts = append(parts, zs...)
	res := cp.result
	if cp.isErr {
		res = "error"
	}
	return strings.Join(parts, " & ") + " -> " + res
}

// the documented v16 rule (zap.md / chunk.go at the pinned release)
var v16ChunkRule = []string{
	"mode=0 -> error",
	"mode1..1024 -> mode",
	"mode=1025 & card<=1024 & docs=0 -> error",
	"mode=1025 & card<=1024 & docs>=1 -> docs",
	"mode=1025 & card>=1025 -> 1024",
	"mode=1026 & quo(docs,add(1,quo(card,1024)))==0 -> error",
	"mode=1026 & quo(docs,add(1,quo(card,1024)))!=0 -> quo(docs,add(1,quo(card,1024)))",
	"mode>=1027 -> error",
}

func ruleR30() *Rule {
	return &Rule{
		ID:    "R30",
		Title: "CHUNK-RULE: getChunkSize computes the documented v16 chunk size on every region of (mode, cardinality, document count)",
		Props: []string{"C09", "C01"},
		Floor: floorFor("R30"),
		Run: func(c *RuleCtx) {
			fn := c.fn("getChunkSize")
			if fn == nil {
				return
			}
			if len(fn.Params) != 3 {
				c.undecided("signature", c.fpos(fn), "getChunkSize(mode, cardinality, maxDocs)", "unexpected number of parameters")
				return
			}
			for _, b := range fn.Blocks {
				for _, s := range b.Succs {
					if s.Dominates(b) {
						c.undecided("loop-free", c.fpos(fn), "getChunkSize is loop free", "a loop was found: idiom not read by this rule")
						return
					}
				}
			}
			names := map[ssa.Value]string{fn.Params[0]: "mode", fn.Params[1]: "card", fn.Params[2]: "docs"}
			var paths []chunkPath
			unreadable := ""
			var walk func(b *ssa.BasicBlock, cp chunkPath, depth int)
			clone := func(cp chunkPath) chunkPath {
				n := chunkPath{region: map[string]interval{}, zero: map[string]bool{}}
				for k, v := range cp.region {
					n.region[k] = v
				}
				for k, v := range cp.zero {
					n.zero[k] = v
				}
				return n
			}
			// constrain applies `atom op k` (taken or not) to the path; false = infeasible
			constrain := func(cp *chunkPath, atom string, op token.Token, k uint64, taken bool) bool {
				if !taken {
					switch op {
					case token.EQL:
						op = token.NEQ
					case token.NEQ:
						op = token.EQL
					case token.LSS:
						op = token.GEQ
					case token.LEQ:
						op = token.GTR
					case token.GTR:
						op = token.LEQ
					case token.GEQ:
						op = token.LSS
					}
				}
				if atom != "mode" && atom != "card" && atom != "docs" {
					// derived expression: only zero tests are kept
					if k == 0 && (op == token.EQL || op == token.NEQ) {
						want := op == token.EQL
						if old, ok := cp.zero[atom]; ok && old != want {
							return false
						}
						cp.zero[atom] = want
						return true
					}
					if k == 0 && op == token.GTR {
						cp.zero[atom] = false
						return true
					}
					unreadable = fmt.Sprintf("condition on %s %s %d", atom, op, k)
					return true
				}
				iv, ok := cp.region[atom]
				if !ok {
					iv = interval{0, math.MaxUint64}
				}
				switch op {
				case token.EQL:
					if k < iv.lo || k > iv.hi {
						return false
					}
					iv = interval{k, k}
				case token.NEQ:
					if iv.lo == k && iv.hi == k {
						return false
					}
					if iv.lo == k {
						iv.lo++
					} else if iv.hi == k {
						iv.hi--
					} else if k > iv.lo && k < iv.hi {
						unreadable = fmt.Sprintf("%s != %d splits a region", atom, k)
					}
				case token.LSS:
					if k == 0 {
						return false
					}
					if k-1 < iv.hi {
						iv.hi = k - 1
					}
				case token.LEQ:
					if k < iv.hi {
						iv.hi = k
					}
				case token.GTR:
					if k == math.MaxUint64 {
						return false
					}
					if k+1 > iv.lo {
						iv.lo = k + 1
					}
				case token.GEQ:
					if k > iv.lo {
						iv.lo = k
					}
				}
				if iv.lo > iv.hi {
					return false
				}
				cp.region[atom] = iv
				return true
			}
			walk = func(b *ssa.BasicBlock, cp chunkPath, depth int) {
				if depth > 40 {
					unreadable = "path too long"
					return
				}
				last := b.Instrs[len(b.Instrs)-1]
				switch x := last.(type) {
				case *ssa.Return:
					_, ns := errorOfReturn(x)
					cp.isErr = ns == nonNil
					if ns == nilUnknown {
						unreadable = "a return whose error is neither nil nor non-nil by construction"
					}
					cp.result = canon(x.Results[0], names, 0)
					paths = append(paths, cp)
				case *ssa.Jump:
					walk(b.Succs[0], cp, depth+1)
				case *ssa.If:
					bo, ok := x.Cond.(*ssa.BinOp)
					if !ok {
						unreadable = "a branch that is not a comparison: " + describeInstr(c.p, x)
						return
					}
					var atom ssa.Value
					var k uint64
					op := bo.Op
					if kk, isK := constUint64(bo.Y); isK {
						atom, k = bo.X, kk
					} else if kk, isK := constUint64(bo.X); isK {
						atom, k = bo.Y, kk
						switch op {
						case token.LSS:
							op = token.GTR
						case token.LEQ:
							op = token.GEQ
						case token.GTR:
							op = token.LSS
						case token.GEQ:
							op = token.LEQ
						}
					} else {
						unreadable = "a comparison without a constant side: " + describeInstr(c.p, x)
						return
					}
					a := canon(atom, names, 0)
					for i, taken := range []bool{true, false} {
						n := clone(cp)
						if constrain(&n, a, op, k, taken) {
							walk(b.Succs[i], n, depth+1)
						}
					}
				default:
					unreadable = "unexpected block end: " + describeInstr(c.p, last)
				}
			}
			walk(fn.Blocks[0], chunkPath{region: map[string]interval{}, zero: map[string]bool{}}, 0)
			if unreadable != "" {
				c.undecided("readable", c.fpos(fn), "getChunkSize uses the comparison/division idioms this rule reads", unreadable)
				return
			}
			var got []string
			for _, p := range paths {
				got = append(got, p.String())
			}
			sort.Strings(got)
			want := append([]string{}, v16ChunkRule...)
			sort.Strings(want)
			var missing, extra []string
			gs, ws := map[string]bool{}, map[string]bool{}
			for _, g := range got {
				gs[g] = true
			}
			for _, w := range want {
				ws[w] = true
				if !gs[w] {
					missing = append(missing, w)
				}
			}
			for _, g := range got {
				if !ws[g] {
					extra = append(extra, g)
				}
			}
			c.check(len(missing) == 0 && len(extra) == 0, "v16-rule", c.fpos(fn),
				"region by region, getChunkSize returns what the v16 rule says: modes 1..1024 -> mode; 1025 -> maxDocs if cardinality <= 1024 else 1024; 1026 -> maxDocs / (cardinality/1024 + 1); zero sizes and unknown modes are errors",
				"regions of the v16 rule not produced: ["+strings.Join(missing, "; ")+"]; produced instead: ["+strings.Join(extra, "; ")+"] — writer and reader would still agree with each other, but files written by the pinned release (and readers written from the documented layout) chunk differently")
			c.ok("paths", c.fpos(fn), fmt.Sprintf("%d feasible paths enumerated", len(paths)))
		},
	}
}
