package main

// E-path: relational typestate over go/ssa blocks.
//
// The abstract state at a program point is a *set of tuples*
//     (ev: event/typestate bits chosen by the rule,
//      df: which defer sites have been registered,
//      bv: value of every tracked boolean SSA value: unknown/false/true)
// A boolean is tracked when it is a phi all of whose operands are constants
// or other tracked phis (a local flag such as `validMerge`, `keepGoing`
// is not: its operands are call results). On an edge, the phis of the
// successor take the operand of that edge; an If on a tracked value (or its
// negation) filters the tuple set. Deferred calls are applied, last
// registered first, at RunDefers.

import (
	"go/token"
	"go/types"
	"sort"

	"golang.org/x/tools/go/ssa"
)

type tuple struct {
	ev uint64
	df uint64
	bv uint64 // 2 bits per tracked bool: 0 unknown, 1 false, 2 true
}

type tupleSet map[tuple]struct{}

func (s tupleSet) add(t tuple) bool {
	if _, ok := s[t]; ok {
		return false
	}
	s[t] = struct{}{}
	return true
}

func (s tupleSet) sorted() []tuple {
	out := make([]tuple, 0, len(s))
	for t := range s {
		out = append(out, t)
	}
	sort.Slice(out, func(i, j int) bool {
		if out[i].ev != out[j].ev {
			return out[i].ev < out[j].ev
		}
		if out[i].df != out[j].df {
			return out[i].df < out[j].df
		}
		return out[i].bv < out[j].bv
	})
	return out
}

// transferFn maps the event bits before an instruction to the possible event
// bits after it. deferred is true when the instruction is a Defer being
// executed at RunDefers. Returning nil means "unchanged".
type transferFn func(in ssa.Instruction, ev uint64, deferred bool) []uint64

// edgeFilterFn lets a rule prune tuples on a CFG edge (e.g. on a branch that
// tests a value the rule understands). Return false to drop the tuple.
type edgeFilterFn func(pred, succ *ssa.BasicBlock, ev uint64) bool

// edgeTransferFn lets a rule record that a CFG edge was taken (e.g. the
// true edge of a guard it recognises). succIdx is the index in pred.Succs.
type edgeTransferFn func(pred *ssa.BasicBlock, succIdx int, ev uint64) uint64

type condTrFn func(cond ssa.Value, outcome bool, ev uint64, actual func(ssa.Value) ssa.Value) uint64

type pathAnalysis struct {
	fn       *ssa.Function
	transfer transferFn
	edge     edgeFilterFn
	edgeTr   edgeTransferFn
	// condTr (optional) is told that a non-constant condition `cond` is known
	// to have had the value `outcome` when a branch on a boolean variable that
	// merely holds cond's value (x := a && (b || cond); if x {...}) is taken.
	//
	// It is also applied inside a predicate function: `if ok(x) {...}` where ok
	// is a function or closure returning bool is read as the conditions that
	// ok's body establishes whenever it returns that outcome; `actual` maps a
	// value of the predicate's body (a parameter) to the caller's argument.
	condTr    condTrFn
	cur       *ssa.BasicBlock // the block whose instructions are being transferred
	bind      map[ssa.Value]ssa.Value
	depth     int
	leafOf    map[*ssa.Phi]ssa.Value // tracked phi -> its single non-constant source, if any
	tracked   []*ssa.Phi
	trackIdx  map[ssa.Value]int
	deferIdx  map[*ssa.Defer]int
	defers    []*ssa.Defer
	in        map[*ssa.BasicBlock]tupleSet
	truncated bool
	// once: a rule that asks what has certainly happened once the function has been called does not take
	// the already-done side of a do-it-once guard for a way out (see onceGuardEdge)
	once     bool
	onceIdx  int
	onceInit bool
}

const maxTuplesPerBlock = 4096

func newPathAnalysis(fn *ssa.Function, tr transferFn) *pathAnalysis {
	pa := &pathAnalysis{fn: fn, transfer: tr, trackIdx: map[ssa.Value]int{}, deferIdx: map[*ssa.Defer]int{},
		in: map[*ssa.BasicBlock]tupleSet{}}
	// tracked boolean phis: greatest fixed point
	cand := map[*ssa.Phi]bool{}
	eachInstr(fn, func(_ *ssa.BasicBlock, in ssa.Instruction) {
		if ph, ok := in.(*ssa.Phi); ok {
			if isBoolType(ph) {
				cand[ph] = true
			}
		}
		if d, ok := in.(*ssa.Defer); ok {
			if len(pa.defers) < 64 {
				pa.deferIdx[d] = len(pa.defers)
				pa.defers = append(pa.defers, d)
			}
		}
	})
	// a tracked phi merges constants, other tracked phis and at most one
	// non-constant condition (its "leaf"): the shape of && / || chains
	// assigned to a variable. State 3 of a tracked phi means "has the value
	// of its leaf".
	leaves := map[*ssa.Phi]map[ssa.Value]bool{}
	for ph := range cand {
		leaves[ph] = map[ssa.Value]bool{}
	}
	for changed := true; changed; {
		changed = false
		for ph := range cand {
			for _, e := range ph.Edges {
				if _, ok := constBool(e); ok {
					continue
				}
				if p2, ok := e.(*ssa.Phi); ok && isBoolType(p2) {
					if !cand[p2] {
						delete(cand, ph)
						changed = true
						break
					}
					for l := range leaves[p2] {
						if !leaves[ph][l] {
							leaves[ph][l] = true
							changed = true
						}
					}
					continue
				}
				if !leaves[ph][e] {
					leaves[ph][e] = true
					changed = true
				}
			}
			if cand[ph] && len(leaves[ph]) > 1 {
				delete(cand, ph)
				changed = true
			}
		}
	}
	pa.leafOf = map[*ssa.Phi]ssa.Value{}
	for ph := range cand {
		for l := range leaves[ph] {
			pa.leafOf[ph] = l
		}
	}
	for ph := range cand {
		pa.tracked = append(pa.tracked, ph)
	}
	sort.Slice(pa.tracked, func(i, j int) bool {
		a, b := pa.tracked[i], pa.tracked[j]
		if a.Block().Index != b.Block().Index {
			return a.Block().Index < b.Block().Index
		}
		return a.Name() < b.Name()
	})
	if len(pa.tracked) > 32 {
		pa.tracked = pa.tracked[:32]
	}
	for i, ph := range pa.tracked {
		pa.trackIdx[ph] = i
	}
	return pa
}

func isBoolType(v ssa.Value) bool {
	return v.Type().Underlying().String() == "bool"
}

func (pa *pathAnalysis) getBool(t tuple, i int) uint64 { return (t.bv >> (2 * uint(i))) & 3 }
func (pa *pathAnalysis) setBool(t tuple, i int, val uint64) tuple {
	t.bv &^= 3 << (2 * uint(i))
	t.bv |= val << (2 * uint(i))
	return t
}

// evalBool evaluates a condition under a tuple: 0 unknown, 1 false, 2 true,
// 3 "has the value of the leaf condition of the tracked phi v".
func (pa *pathAnalysis) evalBool(v ssa.Value, t tuple) uint64 {
	if b, ok := constBool(v); ok {
		if b {
			return 2
		}
		return 1
	}
	if i, ok := pa.trackIdx[v]; ok {
		return pa.getBool(t, i)
	}
	if u, ok := v.(*ssa.UnOp); ok && u.Op == token.NOT {
		switch pa.evalBool(u.X, t) {
		case 1:
			return 2
		case 2:
			return 1
		}
	}
	return 0
}

// evalEdge evaluates the operand e that flows into tracked phi ph.
func (pa *pathAnalysis) evalEdge(ph *ssa.Phi, e ssa.Value, t tuple) uint64 {
	if l, ok := pa.leafOf[ph]; ok && e == l {
		return 3
	}
	return pa.evalBool(e, t)
}

// step runs the instructions of block b on one tuple and returns the tuples
// at the end of the block. visit (optional) is called with the tuple before
// each instruction.
func (pa *pathAnalysis) step(b *ssa.BasicBlock, t tuple, visit func(in ssa.Instruction, t tuple)) []tuple {
	pa.cur = b
	cur := []tuple{t}
	for _, in := range b.Instrs {
		var next []tuple
		for _, c := range cur {
			if visit != nil {
				visit(in, c)
			}
			switch x := in.(type) {
			case *ssa.Defer:
				if i, ok := pa.deferIdx[x]; ok {
					c.df |= 1 << uint(i)
				}
				next = append(next, c)
			case *ssa.RunDefers:
				evs := []uint64{c.ev}
				for i := len(pa.defers) - 1; i >= 0; i-- {
					if c.df&(1<<uint(i)) == 0 {
						continue
					}
					var nevs []uint64
					for _, ev := range evs {
						r := pa.transfer(pa.defers[i], ev, true)
						if r == nil {
							nevs = append(nevs, ev)
						} else {
							nevs = append(nevs, r...)
						}
					}
					evs = nevs
				}
				for _, ev := range evs {
					n := c
					n.ev = ev
					next = append(next, n)
				}
			default:
				r := pa.transfer(in, c.ev, false)
				if r == nil {
					next = append(next, c)
				} else {
					for _, ev := range r {
						n := c
						n.ev = ev
						next = append(next, n)
					}
				}
			}
		}
		cur = dedupTuples(next)
	}
	return cur
}

func dedupTuples(ts []tuple) []tuple {
	if len(ts) < 2 {
		return ts
	}
	seen := map[tuple]bool{}
	out := ts[:0]
	for _, t := range ts {
		if !seen[t] {
			seen[t] = true
			out = append(out, t)
		}
	}
	return out
}

// flow pushes tuple t (state at end of pred) along edge pred->succ.
func (pa *pathAnalysis) flow(pred, succ *ssa.BasicBlock, succIdx int, t tuple) (tuple, bool) {
	if pa.once && pred.Index == 0 {
		if !pa.onceInit {
			pa.onceInit = true
			pa.onceIdx = -1
			if i, ok := onceGuardEdge(pa.fn); ok {
				pa.onceIdx = i
			}
		}
		if pa.onceIdx == succIdx {
			return t, false
		}
	}
	if iff, ok := pred.Instrs[len(pred.Instrs)-1].(*ssa.If); ok && pred.Succs[0] != pred.Succs[1] {
		switch pa.evalBool(iff.Cond, t) {
		case 1: // false
			if succIdx == 0 {
				return t, false
			}
		case 2:
			if succIdx == 1 {
				return t, false
			}
		case 0, 3:
			// learn the value of a tracked condition from the edge taken
			cond := iff.Cond
			neg := false
			for {
				if u, ok := cond.(*ssa.UnOp); ok && u.Op == token.NOT {
					cond, neg = u.X, !neg
					continue
				}
				break
			}
			if i, ok := pa.trackIdx[cond]; ok {
				val := succIdx == 0
				if neg {
					val = !val
				}
				if pa.getBool(t, i) == 3 && pa.condTr != nil {
					// the variable holds its leaf condition's value: that
					// condition had this outcome
					if ph, ok := cond.(*ssa.Phi); ok {
						t.ev = pa.learn(pa.leafOf[ph], val, t.ev)
					}
				}
				if val {
					t = pa.setBool(t, i, 2)
				} else {
					t = pa.setBool(t, i, 1)
				}
			}
		}
	}
	if pa.condTr != nil && len(pred.Succs) == 2 && pred.Succs[0] != pred.Succs[1] {
		if iff, ok := pred.Instrs[len(pred.Instrs)-1].(*ssa.If); ok {
			cond, outcome := iff.Cond, succIdx == 0
			for {
				if u, ok := cond.(*ssa.UnOp); ok && u.Op == token.NOT {
					cond, outcome = u.X, !outcome
					continue
				}
				break
			}
			if call, ok := cond.(*ssa.Call); ok {
				t.ev = pa.predicateEffect(call, outcome, t.ev)
			}
		}
	}
	if pa.edge != nil && !pa.edge(pred, succ, t.ev) {
		return t, false
	}
	if pa.edgeTr != nil {
		t.ev = pa.edgeTr(pred, succIdx, t.ev)
	}
	// phis of succ (parallel assignment)
	predIdx := -1
	for i, p := range succ.Preds {
		if p == pred {
			predIdx = i
			// a block can appear twice as predecessor (if cond with same
			// target); edges then carry the same operands for our purposes
			break
		}
	}
	if succ.Dominates(pred) {
		// back edge: a leaf condition is recomputed in the next iteration, a
		// variable that held its old value no longer "has the leaf's value"
		// (a variable defined outside this loop keeps holding it: nothing recomputes its leaf)
		for i, ph := range pa.tracked {
			if pa.getBool(t, i) == 3 && succ.Dominates(ph.Block()) {
				t = pa.setBool(t, i, 0)
			}
		}
	}
	if predIdx >= 0 {
		old := t
		for _, in := range succ.Instrs {
			ph, ok := in.(*ssa.Phi)
			if !ok {
				break
			}
			if i, ok := pa.trackIdx[ph]; ok {
				t = pa.setBool(t, i, pa.evalEdge(ph, ph.Edges[predIdx], old))
			}
		}
	}
	return t, true
}

// run computes the fixed point from the given initial event bits.
func (pa *pathAnalysis) run(init uint64) {
	if len(pa.fn.Blocks) == 0 {
		return
	}
	entry := pa.fn.Blocks[0]
	pa.in[entry] = tupleSet{tuple{ev: init}: {}}
	work := []*ssa.BasicBlock{entry}
	inWork := map[*ssa.BasicBlock]bool{entry: true}
	done := map[*ssa.BasicBlock]map[tuple]bool{}
	for len(work) > 0 {
		b := work[0]
		work = work[1:]
		inWork[b] = false
		if done[b] == nil {
			done[b] = map[tuple]bool{}
		}
		for _, t := range pa.in[b].sorted() {
			if done[b][t] {
				continue
			}
			done[b][t] = true
			outs := pa.step(b, t, nil)
			for si, s := range b.Succs {
				for _, o := range outs {
					n, ok := pa.flow(b, s, si, o)
					if !ok {
						continue
					}
					if pa.in[s] == nil {
						pa.in[s] = tupleSet{}
					}
					if len(pa.in[s]) >= maxTuplesPerBlock {
						pa.truncated = true
						continue
					}
					if pa.in[s].add(n) && !inWork[s] {
						inWork[s] = true
						work = append(work, s)
					}
				}
			}
		}
	}
}

// visit replays every reachable block once per incoming tuple and reports the
// tuple in force immediately before each instruction.
func (pa *pathAnalysis) visit(f func(in ssa.Instruction, t tuple)) {
	for _, b := range pa.fn.Blocks {
		for _, t := range pa.in[b].sorted() {
			pa.step(b, t, f)
		}
	}
}

// statesBefore collects the event bits that can be in force just before `at`.
func (pa *pathAnalysis) statesBefore(at ssa.Instruction) []uint64 {
	seen := map[uint64]bool{}
	var out []uint64
	b := at.Block()
	for _, t := range pa.in[b].sorted() {
		pa.step(b, t, func(in ssa.Instruction, tt tuple) {
			if in == at && !seen[tt.ev] {
				seen[tt.ev] = true
				out = append(out, tt.ev)
			}
		})
	}
	sort.Slice(out, func(i, j int) bool { return out[i] < out[j] })
	return out
}

func (pa *pathAnalysis) reachable(b *ssa.BasicBlock) bool { return len(pa.in[b]) > 0 }

// actual maps a value of a predicate's body to what the caller passed for it.
func (pa *pathAnalysis) actual(v ssa.Value) ssa.Value {
	for i := 0; i < 4; i++ {
		w, ok := pa.bind[v]
		if !ok {
			return v
		}
		v = w
	}
	return v
}

// learn tells the rule that cond had the given outcome; a cond that is itself a
// call of a predicate function is resolved through its body.
func (pa *pathAnalysis) learn(cond ssa.Value, outcome bool, ev uint64) uint64 {
	if call, ok := cond.(*ssa.Call); ok {
		if e := pa.predicateEffect(call, outcome, ev); e != ev {
			return e
		}
	}
	return pa.condTr(cond, outcome, ev, pa.actual)
}

// predicateCallee: the function or closure a boolean call resolves to.
func predicateCallee(call *ssa.Call) *ssa.Function {
	if call.Call.IsInvoke() {
		return nil
	}
	res := call.Call.Signature().Results()
	if res.Len() != 1 || res.At(0).Type().Underlying().String() != "bool" {
		return nil
	}
	if f := call.Call.StaticCallee(); f != nil {
		return f
	}
	// a closure held in a local variable (possibly captured)
	if mc, ok := root(call.Call.Value).(*ssa.MakeClosure); ok {
		if f, ok := mc.Fn.(*ssa.Function); ok {
			return f
		}
	}
	return nil
}

// predicateEffect: the event bits that hold whenever the predicate called by
// `call` returns `outcome`, starting from ev.
func (pa *pathAnalysis) predicateEffect(call *ssa.Call, outcome bool, ev uint64) uint64 {
	f := predicateCallee(call)
	if f == nil || len(f.Blocks) == 0 || pa.depth >= 2 || pa.condTr == nil {
		return ev
	}
	sub := newPathAnalysis(f, func(ssa.Instruction, uint64, bool) []uint64 { return nil })
	sub.condTr = pa.condTr
	sub.depth = pa.depth + 1
	sub.bind = map[ssa.Value]ssa.Value{}
	for i, a := range call.Call.Args {
		if i < len(f.Params) {
			sub.bind[f.Params[i]] = pa.actual(a)
		}
	}
	sub.edgeTr = func(pred *ssa.BasicBlock, succIdx int, e uint64) uint64 {
		if iff, ok := pred.Instrs[len(pred.Instrs)-1].(*ssa.If); ok && pred.Succs[0] != pred.Succs[1] {
			return sub.condTr(iff.Cond, succIdx == 0, e, sub.actual)
		}
		return e
	}
	sub.run(ev)
	must := ^uint64(0)
	any := false
	sub.visit(func(in ssa.Instruction, t tuple) {
		ret, ok := in.(*ssa.Return)
		if !ok || len(ret.Results) != 1 {
			return
		}
		r := ret.Results[0]
		e := t.ev
		switch sub.evalBool(r, t) {
		case 1:
			if outcome {
				return
			}
		case 2:
			if !outcome {
				return
			}
		case 3:
			if ph, ok := r.(*ssa.Phi); ok {
				e = sub.learn(sub.leafOf[ph], outcome, e)
			}
		default:
			if _, isPhi := r.(*ssa.Phi); !isPhi {
				e = sub.learn(r, outcome, e)
			}
		}
		must &= e
		any = true
	})
	if !any {
		return ev
	}
	return must
}

// pkgFunctions: every source function of the package — package-level functions, the methods of its named
// types and the closures inside them.
func pkgFunctions(pkg *ssa.Package) []*ssa.Function {
	var out []*ssa.Function
	var add func(f *ssa.Function)
	add = func(f *ssa.Function) {
		if f == nil || len(f.Blocks) == 0 {
			return
		}
		out = append(out, f)
		for _, a := range f.AnonFuncs {
			add(a)
		}
	}
	for _, m := range pkg.Members {
		switch m := m.(type) {
		case *ssa.Function:
			add(m)
		case *ssa.Type:
			for _, t := range []types.Type{m.Type(), types.NewPointer(m.Type())} {
				ms := pkg.Prog.MethodSets.MethodSet(t)
				for i := 0; i < ms.Len(); i++ {
					if fo, ok := ms.At(i).Obj().(*types.Func); ok && fo.Pkg() == pkg.Pkg && len(ms.At(i).Index()) == 1 {
						if f := pkg.Prog.FuncValue(fo); f != nil && f.Synthetic == "" {
							dup := false
							for _, o := range out {
								if o == f {
									dup = true
									break
								}
							}
							if !dup {
								add(f)
							}
						}
					}
				}
			}
		}
	}
	return out
}

// onceGuardEdge: fn is a routine that does its work once — its first test is on an unexported bool field of
// its receiver / first pointer parameter, the side on which the field is set only returns constants, and the
// field is set (to true, nowhere else in the package, and never cleared) on the other side, in fn itself:
//
//	func (sf *segmentFile) close() error { if sf.closed { return nil }; sf.closed = true; return sf.f.Close() }
//
// On the side where the field is set the body has run before, so for a rule that asks what has certainly
// happened once fn has been called that side is no way out of its own. Returns the index of that successor
// of the entry block.
func onceGuardEdge(fn *ssa.Function) (int, bool) {
	if fn == nil || len(fn.Blocks) == 0 || fn.Pkg == nil {
		return 0, false
	}
	entry := fn.Blocks[0]
	iff, isIf := entry.Instrs[len(entry.Instrs)-1].(*ssa.If)
	if !isIf || len(entry.Succs) != 2 {
		return 0, false
	}
	cond, neg := iff.Cond, false
	if u, isU := cond.(*ssa.UnOp); isU && u.Op == token.NOT {
		cond, neg = u.X, true
	}
	u, isU := cond.(*ssa.UnOp)
	if !isU || u.Op != token.MUL || !isBoolType(u) {
		return 0, false
	}
	fa, isFA := u.X.(*ssa.FieldAddr)
	if !isFA {
		return 0, false
	}
	if _, isPrm := fa.X.(*ssa.Parameter); !isPrm {
		return 0, false
	}
	for _, in := range entry.Instrs {
		switch in.(type) {
		case ssa.CallInstruction, *ssa.Store:
			return 0, false
		}
	}
	pt, isPtr := fa.X.Type().Underlying().(*types.Pointer)
	if !isPtr {
		return 0, false
	}
	st, isSt := pt.Elem().Underlying().(*types.Struct)
	if !isSt || st.Field(fa.Field).Exported() {
		return 0, false
	}
	setIdx := 0
	if neg {
		setIdx = 1
	}
	// the side where the field is set: nothing but a return of constants
	sb := entry.Succs[setIdx]
	if len(sb.Instrs) != 1 {
		return 0, false
	}
	ret, isRet := sb.Instrs[0].(*ssa.Return)
	if !isRet {
		return 0, false
	}
	for _, r := range ret.Results {
		if _, isC := r.(*ssa.Const); !isC {
			return 0, false
		}
	}
	// every store to the field: in fn, of true, on the other side
	other := entry.Succs[1-setIdx]
	stores := 0
	for _, g := range pkgFunctions(fn.Pkg) {
		bad := false
		eachInstr(g, func(b *ssa.BasicBlock, in ssa.Instruction) {
			s, ok := in.(*ssa.Store)
			if !ok {
				return
			}
			sfa, ok := s.Addr.(*ssa.FieldAddr)
			if !ok || sfa.Field != fa.Field || !types.Identical(sfa.X.Type(), fa.X.Type()) {
				return
			}
			if v, isB := constBool(s.Val); g == fn && isB && v && other.Dominates(b) && sameValue(sfa.X, fa.X) {
				stores++
				return
			}
			bad = true
		})
		if bad {
			return 0, false
		}
	}
	if stores == 0 {
		return 0, false
	}
	return setIdx, true
}
