package main

// File-owner types. A refactoring that recurs is to give the output file an owner: a small struct that is
// created together with the file (`createSegmentFile(path) (*segmentFile, error)`), keeps the *os.File and
// the path in fields nothing ever reassigns, and has the methods that finish or discard the file. For the
// exit-discipline rules the owner IS the file: a load of the file field, or of the path field, of an owner
// is looked through by root() — to the owner itself for a method's own receiver/parameter, and, where the
// owner was created from a known path (the caller of the acquiring function), to that path for the path
// field. The fields must be init-only (stored only into the freshly allocated struct in the acquiring
// function), otherwise the type is not treated as an owner.

import (
	"go/token"
	"go/types"
	"sync"

	"golang.org/x/tools/go/ssa"
)

type fieldKey struct {
	base  ssa.Value
	field int
}

type aliasTable struct {
	m map[fieldKey]ssa.Value
	// fields of an owner that hold a writer built around its file (`br: bufio.NewWriterSize(f, n)`)
	wrap map[wrapKey]bool
	// parameters of a delegate that is handed the file together with a writer stacked on it
	// (`flushSyncClose(br, f)`): the writer parameter -> the file parameter
	pwrap map[*ssa.Parameter]*ssa.Parameter
}

type wrapKey struct {
	named *types.Named
	field int
}

// ownerWrapperField: fa addresses a field of a file owner that holds a writer stacked on the owner's file.
func ownerWrapperField(fa *ssa.FieldAddr) bool {
	fn := fa.Parent()
	if fn == nil {
		return false
	}
	nt, ok := derefType(fa.X.Type()).(*types.Named)
	if !ok {
		return false
	}
	aliasMu.RLock()
	defer aliasMu.RUnlock()
	t := aliasTables[fn.Prog]
	return t != nil && t.wrap[wrapKey{nt, fa.Field}]
}

var (
	aliasMu     sync.RWMutex
	aliasTables = map[*ssa.Program]*aliasTable{}
)

// aliasOf: the representative of a load through fa, if the base is a registered owner.
func aliasOf(fa *ssa.FieldAddr) (ssa.Value, bool) {
	fn := fa.Parent()
	if fn == nil {
		return nil, false
	}
	aliasMu.RLock()
	t := aliasTables[fn.Prog]
	aliasMu.RUnlock()
	if t == nil {
		return nil, false
	}
	aliasMu.RLock()
	v, ok := t.m[fieldKey{rootNoAlias(fa.X), fa.Field}]
	aliasMu.RUnlock()
	return v, ok
}

func rootNoAlias(v ssa.Value) ssa.Value {
	for i := 0; i < 8; i++ {
		switch x := v.(type) {
		case *ssa.ChangeType:
			v = x.X
		case *ssa.UnOp:
			if x.Op != token.MUL {
				return v
			}
			cell := cellOf(x.X)
			if cell == nil || cellEscapes(cell) {
				return v
			}
			st := cellStores(cell)
			if len(st) != 1 {
				return v
			}
			v = st[0].Val
		default:
			return v
		}
	}
	return v
}

func setAlias(prog *ssa.Program, base ssa.Value, field int, rep ssa.Value) {
	aliasMu.Lock()
	defer aliasMu.Unlock()
	t := aliasTables[prog]
	if t == nil {
		t = &aliasTable{m: map[fieldKey]ssa.Value{}, wrap: map[wrapKey]bool{}, pwrap: map[*ssa.Parameter]*ssa.Parameter{}}
		aliasTables[prog] = t
	}
	t.m[fieldKey{rootNoAlias(base), field}] = rep
}

// setParamWrap records that, in a delegate, parameter w is a writer stacked on the file parameter f.
func setParamWrap(prog *ssa.Program, w, f *ssa.Parameter) {
	aliasMu.Lock()
	defer aliasMu.Unlock()
	t := aliasTables[prog]
	if t == nil {
		t = &aliasTable{m: map[fieldKey]ssa.Value{}, wrap: map[wrapKey]bool{}, pwrap: map[*ssa.Parameter]*ssa.Parameter{}}
		aliasTables[prog] = t
	}
	if t.pwrap == nil {
		t.pwrap = map[*ssa.Parameter]*ssa.Parameter{}
	}
	t.pwrap[w] = f
}

func paramWraps(w *ssa.Parameter) *ssa.Parameter {
	fn := w.Parent()
	if fn == nil {
		return nil
	}
	aliasMu.RLock()
	defer aliasMu.RUnlock()
	t := aliasTables[fn.Prog]
	if t == nil {
		return nil
	}
	return t.pwrap[w]
}

func clearAliases(prog *ssa.Program) {
	aliasMu.Lock()
	delete(aliasTables, prog)
	aliasMu.Unlock()
}

// ownerInfo: struct type T of package zap that owns an output file.
type ownerInfo struct {
	named     *types.Named
	fileField int
	pathField int
	acquirer  *ssa.Function
	pathParam int
}

// fileOwners finds the owner types of the program and registers, for every parameter (receiver) of type
// *T of every function of the package, the parameter itself as what its file and path fields stand for.
// The caller clears the aliases when it is done (clearAliases).
func fileOwners(p *Program) []ownerInfo {
	var out []ownerInfo
	for _, k := range p.ZapFuncs {
		if k.Parent() != nil || len(k.Blocks) == 0 {
			continue
		}
		var open *ssa.Call
		n := 0
		for _, cs := range callSites(k) {
			if isCallTo(cs, "os.OpenFile") || isCallTo(cs, "os.Create") {
				if call, ok := cs.(*ssa.Call); ok {
					open = call
					n++
				}
			}
		}
		if n != 1 {
			continue
		}
		res := k.Signature.Results()
		if res.Len() != 2 || !isErrorType(res.At(1).Type()) {
			continue
		}
		pt, ok := res.At(0).Type().Underlying().(*types.Pointer)
		if !ok {
			continue
		}
		nt, ok := pt.Elem().(*types.Named)
		if !ok || nt.Obj().Pkg() == nil || nt.Obj().Pkg().Path() != zapPkgPath {
			continue
		}
		st, ok := nt.Underlying().(*types.Struct)
		if !ok {
			continue
		}
		file := extractOf(open, 0)
		prm, ok := root(open.Call.Args[0]).(*ssa.Parameter)
		if file == nil || !ok {
			continue
		}
		pathParam := -1
		for i, q := range k.Params {
			if q == prm {
				pathParam = i
			}
		}
		// the fresh struct the file and the path go into
		var obj *ssa.Alloc
		ff, pf := -1, -1
		eachInstr(k, func(_ *ssa.BasicBlock, in ssa.Instruction) {
			s, ok := in.(*ssa.Store)
			if !ok {
				return
			}
			fa, ok := s.Addr.(*ssa.FieldAddr)
			if !ok {
				return
			}
			al, ok := fa.X.(*ssa.Alloc)
			if !ok || !types.Identical(derefType(al.Type()), nt) {
				return
			}
			if sameValue(s.Val, file) {
				obj, ff = al, fa.Field
			}
			if root(s.Val) == ssa.Value(prm) {
				pf = fa.Field
			}
		})
		if obj == nil || ff < 0 || pf < 0 || pathParam < 0 {
			continue
		}
		okRet := true
		for _, ret := range returnsOf(k) {
			rv := root(returnedValue(ret, 0))
			if !(isNilConst(rv) || rv == ssa.Value(obj)) {
				okRet = false
			}
		}
		if !okRet {
			continue
		}
		// init-only: no other store to either field anywhere
		initOnly := true
		for _, f := range p.ZapFuncs {
			eachInstr(f, func(_ *ssa.BasicBlock, in ssa.Instruction) {
				s, ok := in.(*ssa.Store)
				if !ok {
					return
				}
				fa, ok := s.Addr.(*ssa.FieldAddr)
				if !ok || !types.Identical(derefType(fa.X.Type()), nt) || (fa.Field != ff && fa.Field != pf) {
					return
				}
				if fa.X != ssa.Value(obj) {
					initOnly = false
				}
			})
			// whole-struct stores through a pointer to T
			eachInstr(f, func(_ *ssa.BasicBlock, in ssa.Instruction) {
				if s, ok := in.(*ssa.Store); ok && types.Identical(s.Val.Type(), nt) {
					initOnly = false
				}
			})
		}
		if !initOnly {
			continue
		}
		_ = st
		out = append(out, ownerInfo{nt, ff, pf, k, pathParam})
		// writers stacked on the file and kept in (init-only) fields of the owner
		eachInstr(k, func(_ *ssa.BasicBlock, in ssa.Instruction) {
			s, ok := in.(*ssa.Store)
			if !ok {
				return
			}
			fa, ok := s.Addr.(*ssa.FieldAddr)
			if !ok || fa.X != ssa.Value(obj) || fa.Field == ff || fa.Field == pf || !wraps(s.Val, file, 0) {
				return
			}
			n := 0
			for _, f := range p.ZapFuncs {
				eachInstr(f, func(_ *ssa.BasicBlock, in2 ssa.Instruction) {
					if s2, ok := in2.(*ssa.Store); ok {
						if fa2, ok := s2.Addr.(*ssa.FieldAddr); ok && fa2.Field == fa.Field && types.Identical(derefType(fa2.X.Type()), nt) {
							n++
						}
					}
				})
			}
			if n == 1 {
				setAlias(p.SSA, obj, -1, obj) // make sure the table exists
				aliasMu.Lock()
				aliasTables[p.SSA].wrap[wrapKey{nt, fa.Field}] = true
				aliasMu.Unlock()
			}
		})
	}
	for _, o := range out {
		for _, f := range p.ZapFuncs {
			for _, prm := range f.Params {
				if pt, ok := prm.Type().Underlying().(*types.Pointer); ok && types.Identical(pt.Elem(), o.named) {
					setAlias(p.SSA, prm, o.fileField, prm)
					setAlias(p.SSA, prm, o.pathField, prm)
				}
			}
		}
		// ... and, where an owner is created, the owner for its file and the path it was created from
		for _, cs := range p.callersOf(o.acquirer) {
			call, ok := cs.(*ssa.Call)
			if !ok || !p.InZap(cs.Parent()) || o.pathParam >= len(call.Call.Args) {
				continue
			}
			if obj := extractOf(call, 0); obj != nil {
				setAlias(p.SSA, obj, o.fileField, obj)
				setAlias(p.SSA, obj, o.pathField, root(call.Call.Args[o.pathParam]))
			}
		}
	}
	return out
}

// ownerOfType: t is a pointer to an owner type.
func ownerOfType(owners []ownerInfo, t types.Type) *ownerInfo {
	pt, ok := t.Underlying().(*types.Pointer)
	if !ok {
		return nil
	}
	for i := range owners {
		if types.Identical(pt.Elem(), owners[i].named) {
			return &owners[i]
		}
	}
	return nil
}

// ownsPath: a is an owner whose path field stands for pathArg (or a is that owner's parameter form).
func ownsPath(p *Program, owners []ownerInfo, a, pathArg ssa.Value) bool {
	o := ownerOfType(owners, a.Type())
	if o == nil || pathArg == nil {
		return false
	}
	aliasMu.RLock()
	defer aliasMu.RUnlock()
	t := aliasTables[p.SSA]
	if t == nil {
		return false
	}
	rep, ok := t.m[fieldKey{rootNoAlias(a), o.pathField}]
	return ok && (rep == pathArg || rootNoAlias(rep) == rootNoAlias(pathArg) || root(rep) == root(pathArg))
}
