package main

// Generation of a cgo-free stub of github.com/blevesearch/go-faiss from the
// module-cache source, so that the `vectors` build configuration of zapx can
// be type-checked and turned into SSA without the FAISS C headers.
//
// The stub keeps every exported (and unexported) declaration with its real Go
// signature; function bodies become panic("faiss stub"), cgo types become
// uintptr and cgo constants become distinct integer literals. FAISS calls are
// therefore opaque externals for every rule (their C side is in the trusted
// base).

import (
	"bytes"
	"fmt"
	"go/ast"
	"go/format"
	"go/parser"
	"go/token"
	"os"
	"os/exec"
	"path/filepath"
	"sort"
	"strconv"
	"strings"
)

const faissModule = "github.com/blevesearch/go-faiss"

// faissModuleDir asks the go command where the go-faiss module required by
// repoDir lives (module cache, read-only).
func faissModuleDir(repoDir string, env []string) (string, error) {
	cmd := exec.Command("go", "list", "-m", "-f", "{{.Dir}}", faissModule)
	cmd.Dir = repoDir
	cmd.Env = env
	var stderr bytes.Buffer
	cmd.Stderr = &stderr
	out, err := cmd.Output()
	if err != nil {
		return "", fmt.Errorf("go list -m %s: %v: %s", faissModule, err, stderr.String())
	}
	dir := strings.TrimSpace(string(out))
	if dir == "" {
		return "", fmt.Errorf("go list -m %s: empty Dir (module not in cache?)", faissModule)
	}
	return dir, nil
}

// writeFaissStub writes the stub module into dstDir and returns the number of
// files and function bodies replaced.
func writeFaissStub(srcDir, dstDir string) (files, funcs int, err error) {
	ents, err := os.ReadDir(srcDir)
	if err != nil {
		return 0, 0, err
	}
	if err := os.MkdirAll(dstDir, 0o755); err != nil {
		return 0, 0, err
	}
	constCounter := 1
	var names []string
	for _, e := range ents {
		n := e.Name()
		if e.IsDir() || !strings.HasSuffix(n, ".go") || strings.HasSuffix(n, "_test.go") {
			continue
		}
		names = append(names, n)
	}
	sort.Strings(names)
	for _, n := range names {
		fset := token.NewFileSet()
		f, perr := parser.ParseFile(fset, filepath.Join(srcDir, n), nil, parser.SkipObjectResolution)
		if perr != nil {
			return 0, 0, perr
		}
		nf := stubFile(f, &constCounter)
		funcs += nf
		var buf bytes.Buffer
		if err := format.Node(&buf, fset, f); err != nil {
			return 0, 0, fmt.Errorf("format %s: %v", n, err)
		}
		if err := os.WriteFile(filepath.Join(dstDir, n), buf.Bytes(), 0o644); err != nil {
			return 0, 0, err
		}
		files++
	}
	gomod := "module " + faissModule + "\n\ngo 1.21\n"
	if err := os.WriteFile(filepath.Join(dstDir, "go.mod"), []byte(gomod), 0o644); err != nil {
		return 0, 0, err
	}
	return files, funcs, nil
}

func isCSel(e ast.Expr) bool {
	se, ok := e.(*ast.SelectorExpr)
	if !ok {
		return false
	}
	id, ok := se.X.(*ast.Ident)
	return ok && id.Name == "C"
}

func stubFile(f *ast.File, constCounter *int) (funcs int) {
	f.Comments = nil
	f.Doc = nil
	// 1. drop import "C"; replace bodies; rewrite C.x in const/var values.
	var decls []ast.Decl
	for _, d := range f.Decls {
		switch d := d.(type) {
		case *ast.GenDecl:
			d.Doc = nil
			if d.Tok == token.IMPORT {
				var specs []ast.Spec
				for _, s := range d.Specs {
					is := s.(*ast.ImportSpec)
					is.Doc, is.Comment = nil, nil
					if is.Path.Value == `"C"` {
						continue
					}
					specs = append(specs, s)
				}
				if len(specs) == 0 {
					continue
				}
				d.Specs = specs
			}
			if d.Tok == token.CONST || d.Tok == token.VAR {
				for _, s := range d.Specs {
					vs := s.(*ast.ValueSpec)
					vs.Doc, vs.Comment = nil, nil
					for i, v := range vs.Values {
						vs.Values[i] = rewriteValue(v, constCounter)
					}
				}
			}
			if d.Tok == token.TYPE {
				for _, s := range d.Specs {
					ts := s.(*ast.TypeSpec)
					ts.Doc, ts.Comment = nil, nil
				}
			}
			decls = append(decls, d)
		case *ast.FuncDecl:
			d.Doc = nil
			if d.Body != nil {
				d.Body = &ast.BlockStmt{List: []ast.Stmt{
					&ast.ExprStmt{X: &ast.CallExpr{
						Fun:  ast.NewIdent("panic"),
						Args: []ast.Expr{&ast.BasicLit{Kind: token.STRING, Value: strconv.Quote("faiss stub")}},
					}},
				}}
				funcs++
			}
			decls = append(decls, d)
		default:
			decls = append(decls, d)
		}
	}
	f.Decls = decls

	// 2. every remaining C.x is in a type position -> uintptr.
	rewriteTypes(f)

	// 3. prune imports that are no longer used.
	used := map[string]bool{}
	ast.Inspect(f, func(n ast.Node) bool {
		if se, ok := n.(*ast.SelectorExpr); ok {
			if id, ok := se.X.(*ast.Ident); ok {
				used[id.Name] = true
			}
		}
		return true
	})
	var decls2 []ast.Decl
	for _, d := range f.Decls {
		gd, ok := d.(*ast.GenDecl)
		if !ok || gd.Tok != token.IMPORT {
			decls2 = append(decls2, d)
			continue
		}
		var specs []ast.Spec
		for _, s := range gd.Specs {
			is := s.(*ast.ImportSpec)
			name := ""
			if is.Name != nil {
				name = is.Name.Name
			} else {
				p, _ := strconv.Unquote(is.Path.Value)
				name = p[strings.LastIndex(p, "/")+1:]
			}
			if used[name] {
				specs = append(specs, s)
			}
		}
		if len(specs) > 0 {
			gd.Specs = specs
			decls2 = append(decls2, gd)
		}
	}
	f.Decls = decls2
	f.Imports = nil
	return funcs
}

// rewriteValue replaces every C.x inside a const/var initialiser by a distinct
// integer literal (distinct, because zapx uses some of them as map keys).
func rewriteValue(e ast.Expr, counter *int) ast.Expr {
	if isCSel(e) {
		lit := &ast.BasicLit{Kind: token.INT, Value: strconv.Itoa(*counter)}
		*counter++
		return lit
	}
	switch e := e.(type) {
	case *ast.BinaryExpr:
		e.X = rewriteValue(e.X, counter)
		e.Y = rewriteValue(e.Y, counter)
	case *ast.ParenExpr:
		e.X = rewriteValue(e.X, counter)
	case *ast.UnaryExpr:
		e.X = rewriteValue(e.X, counter)
	case *ast.CallExpr:
		// conversion such as int(C.x) or a cgo call: keep conversions, stub calls.
		if isCSel(e.Fun) {
			lit := &ast.BasicLit{Kind: token.INT, Value: strconv.Itoa(*counter)}
			*counter++
			return lit
		}
		for i, a := range e.Args {
			e.Args[i] = rewriteValue(a, counter)
		}
	}
	return e
}

func rewriteTypes(f *ast.File) {
	repl := func(e ast.Expr) ast.Expr {
		if isCSel(e) {
			return ast.NewIdent("uintptr")
		}
		return e
	}
	var walkType func(e ast.Expr) ast.Expr
	walkFields := func(fl *ast.FieldList) {
		if fl == nil {
			return
		}
		for _, fld := range fl.List {
			fld.Doc, fld.Comment = nil, nil
			fld.Type = walkType(fld.Type)
		}
	}
	walkType = func(e ast.Expr) ast.Expr {
		e = repl(e)
		switch t := e.(type) {
		case *ast.StarExpr:
			t.X = walkType(t.X)
		case *ast.ArrayType:
			t.Elt = walkType(t.Elt)
		case *ast.MapType:
			t.Key = walkType(t.Key)
			t.Value = walkType(t.Value)
		case *ast.ChanType:
			t.Value = walkType(t.Value)
		case *ast.Ellipsis:
			t.Elt = walkType(t.Elt)
		case *ast.ParenExpr:
			t.X = walkType(t.X)
		case *ast.StructType:
			walkFields(t.Fields)
		case *ast.InterfaceType:
			walkFields(t.Methods)
		case *ast.FuncType:
			walkFields(t.Params)
			walkFields(t.Results)
		}
		return e
	}
	for _, d := range f.Decls {
		switch d := d.(type) {
		case *ast.FuncDecl:
			walkFields(d.Recv)
			walkFields(d.Type.Params)
			walkFields(d.Type.Results)
		case *ast.GenDecl:
			for _, s := range d.Specs {
				switch s := s.(type) {
				case *ast.TypeSpec:
					s.Type = walkType(s.Type)
				case *ast.ValueSpec:
					if s.Type != nil {
						s.Type = walkType(s.Type)
					}
				}
			}
		}
	}
}
