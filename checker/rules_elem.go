package main

// R29 ELEMENT-DEPENDENCE — in the loops that encode one location at a time,
// every encoded component is data-dependent on the location of that iteration.

import (
	"fmt"
	"go/types"
	"strings"

	"golang.org/x/tools/go/ssa"
)

// dependsOn: v is computed (transitively, through operands) from `src`.
func dependsOn(v, src ssa.Value, depth int, seen map[ssa.Value]bool) bool {
	if v == nil || depth > 10 {
		return false
	}
	if v == src {
		return true
	}
	if seen[v] {
		return false
	}
	seen[v] = true
	in, ok := v.(ssa.Instruction)
	if !ok {
		return false
	}
	for _, op := range in.Operands(nil) {
		if *op != nil && dependsOn(*op, src, depth+1, seen) {
			return true
		}
	}
	return false
}

func isLocationElem(t types.Type) bool {
	if isNamed(t, "github.com/blevesearch/scorch_segment_api/v2", "Location") {
		return true
	}
	if isNamed(t, zapPkgPath, "interimLoc") {
		_, isPtr := t.Underlying().(*types.Pointer)
		return !isPtr
	}
	return false
}

func ruleR29() *Rule {
	return &Rule{
		ID:    "R29",
		Title: "ELEMENT-DEPENDENCE: every component encoded for a location is computed from that very location",
		Props: []string{"C06", "C01", "C02"},
		Floor: floorFor("R29"),
		Run: func(c *RuleCtx) {
			p := c.p
			nLoops := 0
			for _, fn := range p.ZapFuncs {
				props := []string{"C06"}
				if strings.Contains(fn.Name(), "writeDicts") {
					props = []string{"C01"}
				}
				perFn := 0
				for _, l := range naturalLoops(fn) {
					rs := l.rangedSlice()
					if rs == nil {
						continue
					}
					sl, ok := rs.Type().Underlying().(*types.Slice)
					if !ok || !isLocationElem(sl.Elem()) {
						continue
					}
					// the element address of this iteration
					var elem *ssa.IndexAddr
					for b := range l.blocks {
						for _, in := range b.Instrs {
							if ia, ok := in.(*ssa.IndexAddr); ok && (ia.X == rs || structEq(ia.X, rs, 0)) {
								if _, isPhiIdx := rangeIndexOf(ia.Index); isPhiIdx {
									if elem == nil || ia.Block().Dominates(elem.Block()) {
										elem = ia
									}
								}
							}
						}
					}
					if elem == nil {
						continue
					}
					nLoops++
					perFn++
					lname := fmt.Sprintf("%s/loop#%d", funcShortName(fn), perFn)
					// any IndexAddr of the same slice with the same index denotes the same element
					isElem := func(v ssa.Value) bool {
						ia, ok := v.(*ssa.IndexAddr)
						return ok && (ia == elem || (structEq(ia.X, elem.X, 0) && ia.Index == elem.Index))
					}
					dep := func(v ssa.Value) bool {
						if _, isConst := v.(*ssa.Const); isConst {
							return true
						}
						seen := map[ssa.Value]bool{}
						var rec func(x ssa.Value, d int) bool
						rec = func(x ssa.Value, d int) bool {
							if x == nil || d > 10 || seen[x] {
								return false
							}
							seen[x] = true
							if isElem(x) {
								return true
							}
							in, ok := x.(ssa.Instruction)
							if !ok {
								return false
							}
							// through the local copy of the element (`for _, loc := range xs` copies a struct)
							if u, ok := x.(*ssa.UnOp); ok {
								addr := u.X
								if fa, ok := addr.(*ssa.FieldAddr); ok {
									addr = fa.X
								}
								if al, ok := addr.(*ssa.Alloc); ok {
									for _, r := range *al.Referrers() {
										if st, ok := r.(*ssa.Store); ok && st.Addr == ssa.Value(al) && l.blocks[st.Block()] && rec(st.Val, d+1) {
											return true
										}
									}
								}
							}
							for _, op := range in.Operands(nil) {
								if *op != nil && rec(*op, d+1) {
									return true
								}
							}
							return false
						}
						return rec(v, 0)
					}
					nComp := 0
					var bad []string
					checkVal := func(v ssa.Value, what string, at ssa.Instruction) {
						nComp++
						if !dep(v) {
							bad = append(bad, what+" does not depend on the location of this iteration: "+describeInstr(p, at))
						}
					}
					for b := range l.blocks {
						for _, in := range b.Instrs {
							switch x := in.(type) {
							case *ssa.Call:
								f := x.Call.StaticCallee()
								if f == nil {
									continue
								}
								switch {
								case namedFn(f, "totalUvarintBytes"):
									for i, a := range x.Call.Args {
										checkVal(a, fmt.Sprintf("size component %d", i), in)
									}
								case f.Name() == "Add" && f.Signature.Recv() != nil && isNamed(f.Signature.Recv().Type(), zapPkgPath, "chunkedIntCoder"):
									// variadic values: stores into the varargs array
									va := x.Call.Args[len(x.Call.Args)-1]
									if sl2, ok := va.(*ssa.Slice); ok {
										if al, ok := sl2.X.(*ssa.Alloc); ok && al.Comment == "varargs" {
											for _, r := range *al.Referrers() {
												if ia, ok := r.(*ssa.IndexAddr); ok {
													for _, r2 := range *ia.Referrers() {
														if st, ok := r2.(*ssa.Store); ok && st.Addr == ssa.Value(ia) {
															checkVal(st.Val, "encoded component", st)
														}
													}
												}
											}
										}
									}
								}
							case *ssa.Store:
								// args[k] = component, args being a []uint64 scratch buffer
								ia, ok := x.Addr.(*ssa.IndexAddr)
								if !ok {
									continue
								}
								if _, isK := constInt64(ia.Index); !isK {
									continue
								}
								if sl3, ok := ia.X.Type().Underlying().(*types.Slice); ok {
									if bt, ok := sl3.Elem().Underlying().(*types.Basic); ok && bt.Kind() == types.Uint64 {
										if al, isAlloc := ia.X.(*ssa.Alloc); isAlloc && al.Comment == "varargs" {
											continue // handled with the call
										}
										checkVal(x.Val, fmt.Sprintf("component stored into the location buffer[%v]", ia.Index.Name()), in)
									}
								}
							}
						}
					}
					if nComp == 0 {
						continue
					}
					c.add(statusOf(len(bad) == 0), lname, c.p.instrPos(elem), fmt.Sprintf("in %s each of the %d components encoded per location (field, position, start, end, array-position count) is computed from the location of that iteration", funcShortName(fn), nComp),
						"a component is the same for every location of the hit: locations that differ in it (e.g. the source field of a composite-field location) are written with the first one's value", props, uniq(bad))
				}
			}
			c.check(nLoops >= half(4), "loops", "-", "per-location encoding loops are found (confirmed by hand: 2 in writeDicts, 2 in mergeTermFreqNormLocs)", fmt.Sprintf("found %d", nLoops))
		},
	}
}
