#!/bin/bash
# usage: seedcheck.sh <seed-dir> <property> [name]
# 1. confirms a seeded change in a scratch worktree (clean+demo passes; changed suite passes; changed+demo fails)
# 2. applies it to /repo, runs the property's check (and all other claimed checks), undoes it
set -u
export GOFLAGS=-mod=mod GOPROXY=off GOSUMDB=off GOTOOLCHAIN=local GOWORK=off
SD=$1; PROP=$2; NAME=${3:-$(basename $SD)}
WT=/tmp/sc-$NAME-$$
git -C /repo worktree add -q --detach $WT HEAD || exit 2
trap 'git -C /repo worktree remove --force $WT >/dev/null 2>&1; git -C /repo checkout -q -- . ; rm -f /repo/seeded_demo_test.go' EXIT
cd $WT
cp $SD/demo_test.go seeded_demo_test.go
T=$(grep -o 'func Test[A-Za-z0-9_]*' seeded_demo_test.go | sed 's/func //' | paste -sd'|')
echo "== demo tests: $T"
if go test -vet=off -count=1 -run "^($T)\$" . >/tmp/sc-$$.log 2>&1; then echo "1. clean+demo: PASS (ok)"; else echo "1. clean+demo: FAIL (seed rejected)"; tail -5 /tmp/sc-$$.log; exit 1; fi
rm seeded_demo_test.go
git apply $SD/patch.diff || { echo "patch does not apply"; exit 1; }
if go build ./... >/tmp/sc-$$.log 2>&1 && go test -vet=off -count=1 ./... >>/tmp/sc-$$.log 2>&1; then echo "2. changed suite: PASS (ok)"; else echo "2. changed suite: FAIL (seed rejected)"; tail -5 /tmp/sc-$$.log; exit 1; fi
cp $SD/demo_test.go seeded_demo_test.go
if go test -vet=off -count=1 -run "^($T)\$" . >/tmp/sc-$$.log 2>&1; then echo "3. changed+demo: PASS (seed rejected: demo does not fail)"; exit 1; else echo "3. changed+demo: FAIL (ok)"; grep -m3 -- "--- FAIL\|Error\|panic" /tmp/sc-$$.log; fi
cd /verif
git -C /repo apply $SD/patch.diff || { echo "cannot apply to /repo"; exit 1; }
echo "== checks on /repo with the change applied"
for P in $(python3 -c "import json;print(' '.join(c['property_id'] for c in json.load(open('/verif/MANIFEST.json'))['checks']))"); do
  OUT=$(/verif/bin/zapxlint check -property $P -tier quick -no-evidence 2>&1)
  if echo "$OUT" | grep -q "^VIOLATION"; then
     echo "  $P: VIOLATION"; echo "$OUT" | grep -A1 "^VIOLATION" | grep -v "^VIOLATION\|^--" | sed 's/^/      /' | head -6
  fi
done
echo "  (property under test: $PROP)"
git -C /repo checkout -q -- .
rm -f /tmp/sc-$$.log
