#!/usr/bin/env python3
"""Regenerates /verif/MANIFEST.json from the table below (kept next to the checker so
that the claimed levels, techniques and not-applicable reasons live in one place)."""
import json, os, sys

V = os.path.dirname(os.path.dirname(os.path.abspath(__file__)))

TECH = "static analysis over go/ssa of both build-tag configurations: "
CLAIMS = {
 # id: (rules, technique, level text, note)
}

def claim(pid, rules, technique, text, note, design):
    CLAIMS[pid] = dict(rules=rules, technique=technique, text=text, note=note, design=design)

TB = ("Trusted: go/packages+go/types+go/ssa (x/tools v0.29.0), the VTA call graph, the go-faiss stub generator "
      "(FAISS is an opaque external with its real Go signatures), and the frozen rule tables in /verif/checker "
      "(one reason per line). Decides structural necessary conditions only; runtime-value clauses listed in the "
      "evidence file under does_not_decide stay with testing.")

claim("C05", "R10,R15,R16,R17,R24,R25,R26,R27,R33", "who-uses analysis of the output file and its buffered writer (every byte counted, size = final count); must-pass-through path analysis of mergeToWriter against may-write summaries; edge-sensitive byte-copy guard; sentinel writer/reader checks; index-space typing; loop coverage",
      "Decides that every merged byte passes the counting writer and the reported size is its final count, stored bytes are copied only under fieldsSame and an empty drop bitmap, dropped documents get the sentinel and nothing is written for them, and the field table cannot be written at offset 0 (known finding F6 on the no-survivor path). Does not decide consecutive renumbering or stored content.", TB, "DESIGN.md §3 R16, §4 C05, §5 F6")
claim("C07", "R11,R12,R31,R36", "must-assign typestate of the encoding tag in PostingsList.read + reset-completeness check of every reuse path (whole-struct zero store, carried-field allow-list, cleaning calls) over go/ssa",
      "Decides that a reused postings list / iterator starts from a fully reset state except tabled buffers that are cleaned, and that a decoded list's encoding tag is defined; that every freq/norm record reader (read and skip forms) consumes the norm word exactly when the decoded frequency is non-zero (R36). Does not decide cursor lock-step under Next/Advance.", TB, "DESIGN.md §3 R11 R12, §4 C07")
claim("C08", "R11,R32,R28", "must-assign typestate over go/ssa: tag field stored on every successful path of read, or every caller decodes into a fresh object",
      "Decides that the scratch list reused by the dictionary iterator cannot keep a stale 1-hit tag (the mechanism the property's counts depend on). Does not decide automaton/range filtering or ordering.", TB, "DESIGN.md §3 R11, §4 C08")
claim("C10", "R10,R1,R37", "field-coverage effect analysis of Reset/Set/newWithChunkMode for every pooled builder struct, slice re-extension classification, dominance of Put by successful reset, global-write effect summary over the call graph, pool ownership typestate",
      "Decides that every field of the pooled builder state has a re-initialisation point, truncated slices are not re-extended over stale elements, the builder returns to the pool only after a successful reset, and the build path writes no package-level state. Does not decide 're-initialised before first read on every path'.", TB, "DESIGN.md §3 R10 R1, §4 C10")
claim("C11", "R1,R2,R3,R4,R5", "put-count typestate with bottom-up callee summaries (pool ownership) + must-hold lockset analysis with caller-propagated requirements + atomic-only field check over go/ssa",
      "Decides single ownership of pooled scratch contexts, that tabled shared fields are only accessed under their mutex, and that the section registry is written only at init. Does not prove data-race freedom.", TB, "DESIGN.md §3 R1 R2, §4 C11")
claim("C16", "R21,R22,R23,R2,R6", "data+control-dependence taint (post-dominator based) from per-call arguments to shared cache stores with interprocedural summaries; reference-taking must-pass-through on hand-out paths; eviction guard truth table; who-may-call for Close; lockset",
      "Decides that cache entry content is independent of the per-call exclusion bitmap, that every hand-out takes a reference, that eviction happens only at zero references after removal from the map, and that only cacheEntry.close closes a cached index. Does not decide timing of the monitor goroutine.", TB, "DESIGN.md §3 R21 R22, §4 C16")
claim("C17", "R6,R7", "exit-discipline path analysis (cleanup before every failure exit, completion calls tested before every success exit, ordering) with dominance-based nil-ness of error values; dropped-error enumeration with scope by call-graph reachability; sticky-writer precondition; section-interface sibling agreement",
      "Decides that Persist, WriteTo and Merge clean up (close+remove) on every failure exit, report success only after body, footer, Flush and Close succeeded in order, and that no write error is dropped. Does not decide that the OS reports the fault or file content.", TB, "DESIGN.md §3 R6 R7, §4 C17")
claim("C18", "R8,R6", "per-poll-site branch analysis (closed branch returns seg.ErrClosed without writing), dominance of the first writes by a poll, exit-discipline path analysis of the merge entry point and of the vector merge",
      "Decides that every cancellation poll returns the closed error, a poll dominates the merge's first write, and cancellation exits run the same cleanup as I/O failures (including freeing reconstructed vector indexes). Does not decide when the channel is observed closed.", TB, "DESIGN.md §3 R8 R6, §4 C18")
claim("C19", "R7,R6", "dropped-error enumeration scoped to calls reaching go-faiss or the section interface, sibling agreement of section.Persist/Merge implementations, release-on-every-exit path analysis for every native index producer",
      "Decides that no vector-engine/section error is dropped, that section implementations return their writer's error, and that every native index is closed, stored into its owner or handed over on every exit. Does not decide engine behaviour.", TB, "DESIGN.md §3 R7 R6, §4 C19")
claim("C20", "R9,R6,R2", "guard truth-table evaluation over the orderings of the decremented count, who-may-call for Unmap/file Close, control-dependence of the descriptor close, ordering of cache clearing before Unmap, exit discipline of Open, lockset on refs",
      "Decides that the mapping is released exactly at the 1->0 guard under the mutex by a single owner, Open starts at 1 and closes on every failure exit, caches are cleared before unmapping, and the in-memory Close is harmless. Does not decide OS-level release.", TB, "DESIGN.md §3 R9, §4 C20")

claim("C01", "R13,R14,R28,R29,R30,R31,R32,R36,R37", "provenance classification of every getChunkSize call site (role from where the result flows, kind from where the arguments come) + format-constant table check, in both build-tag configurations",
      "Narrow claim. Decides that the build writer, the merge writer and the reader derive the postings chunk size from (the segment's chunk mode, a postings cardinality, the segment's document count) alike, and that the encoding constants have their v16 values; that per-term accumulators are reset, every encoded location component comes from that location, and the norm word of a posting is written and consumed exactly when its frequency is non-zero (R36). Does not decide which hits/frequencies/locations come back.", TB, "DESIGN.md §3 R13 R14, §4 C01")
claim("C02", "R19,R26,R27,R33,R10,R29,R38", "path analysis of the stored-field visitor loop (pending/stop typestate over visitor results, edge-sensitive), truth-table evaluation of the document-number guard over the orderings of (num, numDocs), natural-loop exit analysis of DocNumbers",
      "Decides that a visitor's stop request is honoured on every path, that document numbers at or beyond Count never index the stored table, and that DocNumbers looks at every given id. Does not decide byte-for-byte round trip of stored values.", TB, "DESIGN.md §3 R19 R26, §4 C02")
claim("C03", "R13,R4,R20,R15,R26,R27,R31", "chunk-size provenance classification; receiver-provenance analysis of mutating docValueReader methods (clone-before-mutate); edge-sensitive typestate of a reused visit state (fresh / compared / stale); sibling effect comparison and loop-coverage of the two loaders",
      "Decides that doc-value writers and reader derive the chunk size identically, shared readers are only used through private clones, a reused visit state is validated against the segment and emptied when it differs, and both loaders visit every field with the same effects. Does not decide the terms returned.", TB, "DESIGN.md §3 R13 R4 R20 R15 R26, §4 C03")
claim("C04", "R15,R14,R26,R27,R6,R13", "who-writes analysis of SegmentBase.mem over the call graph; footer writer sequence extraction and loop-free affine path enumeration of the footer reader against the frozen v16 table; CRC fold/seed checks; argument-role checks at both persistFooter call sites and at InitSegmentBase; loader sibling comparison",
      "Decides that Persist and WriteTo share the one writer routine, that the footer writer and reader equal the v16 table (order, widths, roles, CRC last and seeded, FooterSize, Version), that the in-memory segment is initialised from the bytes/CRC/chunk mode/offsets of its own build, and that the loader siblings agree. Does not decide equality of answers.", TB, "DESIGN.md §3 R15 R14, §4 C04")
claim("C06", "R13,R17,R24,R18,R25,R26,R28,R29,R12,R31,R32,R33,R34,R36,R37", "chunk-size provenance classification in the merge writer; edge-sensitive path analysis of the byte-copy guard with provenance of fieldsSame; dominance of every use of a remapped number by a sentinel test on a structurally equal element; address-wiring effect summaries; index-space typing of per-segment vs per-field compacted tables; loop coverage",
      "Decides that the merge derives postings/doc-value chunk sizes like the reader, copies posting bytes only under fieldsSame, tests every remapped document number against the drop sentinel before use, records section addresses, and never mixes segment-position and active-position indexes. Does not decide merged values.", TB, "DESIGN.md §3 R13 R17 R24 R18 R25, §4 C06")
claim("C09", "R14,R13,R25,R27,R28,R30,R32,R36", "footer writer/reader extraction against the frozen v16 table, format-constant and format-variable value checks (go/types constants, package initialiser stores), chunk-size provenance classification",
      "Decides that the footer as written and as read is the documented v16 footer and that the numeric format constants/variables have their v16 values; plus chunk derivation kinds. Below the footer it decides only the fixed-width big-endian records (field-table pairs, fields index, stored-document index, doc-value trailer: widths, strides, order — R27). The chunk-size rule itself is compared region by region with the documented v16 rule (R30: path enumeration, intervals on the parameters, canonical result expressions; nothing is evaluated). Does NOT decide the uvarint streams, and cannot read frozen files.", TB, "DESIGN.md §3 R14 R13, §4 C09")
claim("C13", "R18,R24,R25,R26,R12,R28,R35", "address-wiring effect summaries on the synonym section; sentinel-test dominance for remapped document numbers; index-space typing (segment-position vs active-position tables) in mergeAndPersistSynonymSection; loop coverage",
      "Narrow claim. Decides that merged thesaurus addresses and the field->thesaurus map are recorded, remapped numbers are tested against the drop sentinel before being encoded, and the per-field compacted tables (thesauri, drops, newDocNums) are indexed in their own space; that the per-field synonym-id maps and the id counter are reset together (R28b) and the (id, document) code is split at bit 32 on both sides (R35). Does not decide the surviving (synonym, document) pairs.", TB, "DESIGN.md §3 R18 R24 R25, §4 C13")
claim("C15", "R18,R24,R25", "address-wiring effect summaries with an edge-sensitive non-empty guard on the merged vector section address; sentinel-test dominance; index-space typing in the vector merge",
      "Narrow claim (vectors tag, through the go-faiss stub). Decides that the merged vector section address is recorded on the merge path and only when a vector survived, and that vectors of dropped documents are filtered by the sentinel test. Does not decide which vectors the native library holds.", TB, "DESIGN.md §3 R18 R24, §4 C15")

claim("C14", "R23", "edge-sensitive path analysis of the search closures built by InterpretVectorIndex (non-nil and dimension guards before every engine call), provenance of the exclusion list and of the id->doc map (single-assignment captured variables fed by the cache load of this call)",
      "Narrow claim (vectors tag, through the go-faiss stub). Decides that queries of the wrong dimension or on fields without an index never reach the engine, that the unfiltered search passes the exclusion list computed from this call's except bitmap, and that only ids found in the id->doc map are emitted. Does not decide scores, top-k or selector choice.", TB, "DESIGN.md §3 R23, §4 C14")

claim("C12", "R35,R12,R31", "pattern analysis of the (id, document) code constructor and destructor (shift widths, operand order); edge-sensitive path analysis of the synonym iterator (a decoded pair is returned only after its document passed the exclusion test); who-writes analysis of the exclusion-check list, shape of the exclusion predicate, and guard analysis in front of invertedIndexOpaque.process; reset-completeness of the reused synonyms list / iterator",
      "Narrow claim. Decides that encodeSynonym and decodeSynonym are inverse (id high, document low, split at bit 32), that the iterator hands out a pair only if its document is not excluded, that synonym fields are kept out of the ordinary term dictionaries (registered exclusion check, frozen list, guarded process call), and that reused synonyms lists and iterators are fully reset. Does NOT decide which pairs a batch defines, synonym-id assignment, term ordering or persist/re-open equality of answers.", TB, "DESIGN.md §3 R35, §4 C12")

NOT_APPLICABLE = {
}
PENDING = {}
for i in range(1, 21):
    pid = "C%02d" % i
    if pid not in CLAIMS and pid not in NOT_APPLICABLE:
        PENDING[pid] = "rules for this property (see DESIGN.md §4) are not yet registered in this commit"

checks = []
for pid in sorted(CLAIMS):
    c = CLAIMS[pid]
    checks.append({
        "property_id": pid,
        "quick_cmd": "/verif/run.sh %s quick" % pid,
        "thorough_cmd": "/verif/run.sh %s thorough" % pid,
        "evidence_file": "/verif/evidence/%s.json" % pid,
        "replay_cmd_template": "/verif/bin/zapxlint replay {path}",
        "engine": "zapxlint",
        "level_claimed": {"category": "other", "text": c["text"] + " Rules: " + c["rules"] + ".", "design_ref": c["design"]},
        "level_note": c["note"],
        "technique": c["technique"],
    })
m = {
 "version": 1,
 "setup_cmd": "cd /verif/checker && GOFLAGS=-mod=mod GOPROXY=off GOSUMDB=off GOTOOLCHAIN=local GOWORK=off go build -o /verif/bin/zapxlint .",
 "hooks": {"guard": "verif", "enable": "none needed: every check reads /repo's source tree; there are no hook commits", "baseline_off_cmd": "cd /repo && GOFLAGS=-mod=mod GOPROXY=off go test -vet=off -count=1 ./...", "source_commits": [], "add_only": True},
 "engines": [{"name": "zapxlint", "path": "/verif/checker", "serves_properties": sorted(CLAIMS), "kind_free_text": "repository-specific static analyser: go/packages -> go/types -> go/ssa -> VTA call graph; relational typestate path engine, lockset/ownership dataflow, control-dependence taint, call-graph effect summaries; both build-tag configurations via a generated cgo-free go-faiss stub"}],
 "checks": checks,
 "not_applicable": [{"property_id": k, "reason": v} for k, v in sorted({**NOT_APPLICABLE, **PENDING}.items())],
 "notes": "Technique family: static analysis only. Nothing of /repo is executed by any check. Known findings: /verif/known_findings.txt. Design: /verif/DESIGN.md.",
}
json.dump(m, open(os.path.join(V, "MANIFEST.json"), "w"), indent=1)
print("claimed:", " ".join(sorted(CLAIMS)), "| n/a:", " ".join(sorted({**NOT_APPLICABLE, **PENDING})))
