#!/bin/bash
# usage: h8check.sh <dir-with-a.diff,b.diff,c.diff[,d.diff]> [verify]
# every rule, both configurations, on each (claimed behaviour-preserving) patch applied in memory; with
# "verify": also builds, vets and runs the suite on each patch in a scratch worktree outside /repo and
# /verif, each `go test` in a private /tmp (vectors configuration too, with the stand-in engine, when the
# patch touches the vector files).
export GOFLAGS=-mod=mod GOPROXY=off GOSUMDB=off GOTOOLCHAIN=local GOWORK=off
D=$(realpath $1)
for f in $D/a.diff $D/b.diff $D/c.diff $D/d.diff; do
  [ -f $f ] || continue
  out=$(/verif/bin/zapxlint list -patch $f 2>&1 | grep "^\s*\[\|LOAD ERR\|checker panic\|^stale\|does not apply" | grep -v "R16/mergeToWriter/field-table-at-offset-0" | sort | uniq -c)
  if [ -z "$out" ]; then echo "quiet  $f"; else echo "ALARM  $f"; echo "$out" | sed 's/^/        /'; fi
  if [ "$2" = verify ]; then
    WT=/var/tmp/h8c-$$; git -C /repo worktree add -q --detach $WT HEAD
    VEC=""; grep -q "faiss_vector\|section_faiss" $f && VEC=1
    CMD="go build ./... && go vet . && go test -vet=off -count=1 ./..."
    [ -n "$VEC" ] && CMD="$CMD && go vet -modfile=/var/tmp/fakefaiss-shared/alt.mod -tags vectors . && go test -modfile=/var/tmp/fakefaiss-shared/alt.mod -tags vectors -vet=off -count=1 ."
    ( cd $WT && git apply $f && unshare -rm sh -c "mount -t tmpfs tmpfs /tmp && cd $WT && $CMD" >/var/tmp/h8c-$$.log 2>&1 && echo "        suite ok${VEC:+ (both configurations)}" || { echo "        SUITE/BUILD FAIL"; tail -5 /var/tmp/h8c-$$.log; } )
    git -C /repo worktree remove --force $WT; rm -f /var/tmp/h8c-$$.log
  fi
done
