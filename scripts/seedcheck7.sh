#!/bin/bash
# usage: seedcheck7.sh <deliverables-dir> <property>
# Confirms a seeded change (round 7 layout: patch.diff, demo_test.go, optional fixed.diff, optional
# alt.mod/alt.sum/fakefaiss for the vectors build) in a scratch worktree outside /repo and /verif, with
# every `go test` in a private /tmp (the suite writes fixed /tmp paths), then applies the change — and the
# repaired form — to /repo, runs every registered check, and undoes it.
set -u
export GOFLAGS=-mod=mod GOPROXY=off GOSUMDB=off GOTOOLCHAIN=local GOWORK=off
SD=$(realpath "$1"); PROP=$2; NAME=$(basename "$SD")
WT=/var/tmp/sc7-$NAME-$$
LOG=/var/tmp/sc7-$NAME-$$.log
PHASE=${PHASE:-both}
if [ "$PHASE" = check ]; then WT=""; fi
[ -n "$WT" ] && { git -C /repo worktree add -q --detach "$WT" HEAD || exit 2; }
trap '[ -n "$WT" ] && git -C /repo worktree remove --force "$WT" >/dev/null 2>&1; [ "$PHASE" != confirm ] && git -C /repo checkout -q -- . ; rm -f "$LOG"' EXIT
VEC=0
if head -5 "$SD/demo_test.go" | grep -q 'go:build vectors'; then VEC=1; fi
MODF=""
if [ $VEC = 1 ]; then
  if [ -f "$SD/alt.mod" ]; then
    sed "s#=> .*fakefaiss.*#=> $SD/fakefaiss#" "$SD/alt.mod" > "$WT.alt.mod"; cp "$SD/alt.sum" "$WT.alt.sum" 2>/dev/null
    [ -d "$SD/fakefaiss" ] || sed -i "s#=> .*#=> /var/tmp/fakefaiss-shared#" "$WT.alt.mod"
    MODF="-modfile=$WT.alt.mod -tags vectors"
  else
    MODF="-modfile=/var/tmp/fakefaiss-shared/alt.mod -tags vectors"
  fi
fi
iso() { unshare -rm sh -c "mount -t tmpfs tmpfs /tmp && cd $WT && $*"; }
T=$(grep -o 'func Test[A-Za-z0-9_]*' "$SD/demo_test.go" | sed 's/func //' | paste -sd'|')
echo "== $NAME ($PROP) demo tests: $T vectors=$VEC"
demo() { iso "go test $MODF -vet=off -count=1 -run '^($T)\$' ." >"$LOG" 2>&1; }
suite() {
  iso "go build ./... && go vet . && go test -vet=off -count=1 ./..." >"$LOG" 2>&1 || return 1
  if [ $VEC = 1 ]; then iso "go vet $MODF . && go test $MODF -vet=off -count=1 ." >>"$LOG" 2>&1 || return 1; fi
  return 0
}
FIXED=0
if [ "$PHASE" != check ]; then
cd "$WT"
cp "$SD/demo_test.go" seeded_demo_test.go
if demo; then echo "1. clean+demo: PASS (ok)"; else echo "1. clean+demo: FAIL (seed rejected)"; tail -8 "$LOG"; exit 1; fi
rm seeded_demo_test.go
git apply "$SD/patch.diff" || { echo "patch does not apply"; exit 1; }
if suite; then echo "2. changed suite: PASS (ok)"; else echo "2. changed suite: FAIL (seed rejected)"; tail -8 "$LOG"; exit 1; fi
cp "$SD/demo_test.go" seeded_demo_test.go
if demo; then echo "3. changed+demo: PASS (seed rejected: demo does not fail)"; exit 1; else echo "3. changed+demo: FAIL (ok)"; grep -m3 -- "--- FAIL\|Error\|panic" "$LOG"; fi
if [ -f "$SD/fixed.diff" ]; then
  rm seeded_demo_test.go; git checkout -q -- .
  if git apply "$SD/fixed.diff"; then
    if suite; then
      cp "$SD/demo_test.go" seeded_demo_test.go
      if demo; then echo "4. repaired form: suite PASS, demo PASS (ok)"; FIXED=1; else echo "4. repaired form: demo FAILS (fixed.diff rejected)"; tail -5 "$LOG"; fi
    else echo "4. repaired form: suite FAILS (fixed.diff rejected)"; tail -5 "$LOG"; fi
  else echo "4. fixed.diff does not apply"; fi
fi
echo "CONFIRMED fixed=$FIXED" > "$SD/.confirmed"
fi
[ "$PHASE" = confirm ] && exit 0
[ -f "$SD/.confirmed" ] || { echo "not confirmed yet"; exit 1; }
grep -q "fixed=1" "$SD/.confirmed" && FIXED=1
cd /verif
runall() {
  python3 -c "import json;print('\n'.join(c['property_id'] for c in json.load(open('/verif/MANIFEST.json'))['checks']))" | \
  xargs -P 10 -I{} sh -c '/verif/bin/zapxlint check -property {} -tier quick -no-evidence > /var/tmp/sc7-out-$$-{}.txt 2>&1' 
  for f in /var/tmp/sc7-out-*-C*.txt; do
    P=$(basename $f .txt | sed 's/.*-//')
    if grep -q "^VIOLATION" $f; then
       echo "  $P: VIOLATION"; grep "\[violated\]\|\[undecided\]" $f | sed 's/^/      /' | head -6
    fi
    rm -f $f
  done
}
git -C /repo apply "$SD/patch.diff" || { echo "cannot apply to /repo"; exit 1; }
echo "== checks on /repo with the change applied (property under test: $PROP)"
runall
git -C /repo checkout -q -- .
if [ $FIXED = 1 ]; then
  git -C /repo apply "$SD/fixed.diff" && { echo "== checks on /repo with the REPAIRED form applied (must be silent)"; runall; }
  git -C /repo checkout -q -- .
fi
rm -f "$WT.alt.mod" "$WT.alt.sum"
