#!/bin/bash
# usage: hcheck.sh <dir-with-h*.diff> [verify]
# runs every rule (both configurations) on each small behaviour-preserving patch, applied in memory;
# with "verify": also rebuilds and runs the pinned suite on each patch in a scratch worktree.
export GOFLAGS=-mod=mod GOPROXY=off GOSUMDB=off GOTOOLCHAIN=local GOWORK=off
D=$(realpath $1)
for f in $(ls $D/h*.diff 2>/dev/null | sort -V); do
  out=$(/verif/bin/zapxlint list -patch $f 2>&1 | grep "^\s*\[\|LOAD ERR\|checker panic\|^stale\|does not apply" | grep -v "R16/mergeToWriter/field-table-at-offset-0" | sort | uniq -c)
  if [ -z "$out" ]; then echo "quiet  $f"; else echo "ALARM  $f"; echo "$out" | sed 's/^/        /'; fi
  if [ "$2" = verify ]; then
    WT=/tmp/hc-$$; git -C /repo worktree add -q --detach $WT HEAD
    ( cd $WT && git apply $f && go build ./... && go test -vet=off -count=1 ./... >/dev/null 2>&1 && echo "        suite ok" || echo "        SUITE/BUILD FAIL" )
    git -C /repo worktree remove --force $WT
  fi
done
