#!/usr/bin/env python3
"""Round-14 prompts for the independent seeding agents (kept for the record: an agent is given
exactly one of these texts — the property and its own worktree — and nothing from /verif)."""
import json, sys, os
out = sys.argv[1] if len(sys.argv) > 1 else '/var/tmp/r14prompts'
os.makedirs(out, exist_ok=True)
props = {}
for l in open('/verif/properties.jsonl'):
    d = json.loads(l); props[d['id']] = d
HEAD = '''You are testing a verification tool by planting a realistic bug. You have your own scratch git worktree of the Go library blevesearch/zapx (package zap: Bleve's immutable on-disk index segment format) at {wt} (already created, at the pinned commit). Work ONLY inside {wt} and write deliverables ONLY to {out} (create it). Never touch /repo or /verif, never run `git stash` (worktrees share the stash), never create commits, branches or tags.

Every shell call needs: export GOFLAGS=-mod=mod GOPROXY=off GOSUMDB=off GOTOOLCHAIN=local GOWORK=off   (no network).
The test suite writes fixed paths such as /tmp/scorch.zap and other people run it at the same time, so ALWAYS run go test inside a private /tmp: `unshare -rm sh -c 'mount -t tmpfs tmpfs /tmp && cd {wt} && <go test command>'`.

This is a property the library is supposed to have:

  {pid}: {title}
  {statement}

  (It quantifies over: {quantifier})
'''
JOB_PERF = '''
Your job: write ONE realistic commit (15-60 changed lines in non-test .go files) that ADDS something to the code behind this property — the kind of change a maintainer makes most often:
  - a small feature or extension (a fast path for a special input such as a single segment, an empty field, an all-deleted segment or a one-document batch; a new unexported option or package-level tunable; a size or count limit with an error; a statistics counter or size accounting; a new unexported accessor used by an existing function; support for a rare combination of field options; a retry or fallback when a step fails; early validation of inputs), or
  - a bug fix for an imagined bug report (a nil check, a bounds check, an error that was swallowed, a leak on an error path, an overflow guard) that fixes the reported case
and that looks correct and careful — with the comments such a commit would have — but is subtly WRONG: correct for the inputs the existing tests use, violating the property for some other input / schedule / history / failure point. The mistake must be a plausible accident of exactly this kind of change (the new path skips a step the general path performs, the new option is honoured by the writer but not the reader or by build but not merge, the limit is checked after the state was already changed, the counter is updated on one path only, the fix handles the reported case and breaks its neighbour, the fallback reuses state the failed attempt left behind, the new early return leaves something un-released / un-reset / un-recorded). It must satisfy:
  1. the library still compiles: `cd {wt} && go build ./... && go vet .`
  2. the existing test suite still passes: `go test -vet=off -count=1 ./...` (in the private /tmp, see above; if a test fails, your change is too blunt — find a subtler one);
  3. the property above is now violated, and you can demonstrate it.
Prefer a bug that needs something specific to manifest. Read the relevant code first. Do not change exported API (adding is fine, changing or removing is not), tests, or build tags. Do not touch files that are only built with `-tags vectors`.
'''
JOB_VEC = '''
This code is built only with `-tags vectors`, which needs the cgo library FAISS (not installed). A pure-Go stand-in for the module github.com/blevesearch/go-faiss is provided at /var/tmp/fakefaiss-shared (read-only for you; read faiss.go to see what it can do, e.g. how to make it fail) with a ready modfile. Build and test the vectors configuration with
    go vet -modfile=/var/tmp/fakefaiss-shared/alt.mod -tags vectors .
    go test -modfile=/var/tmp/fakefaiss-shared/alt.mod -tags vectors -vet=off -count=1 .
(the latter inside the private /tmp, see above). If you need the stand-in to do something it cannot, copy it to {out}/fakefaiss, extend the copy, and use your own alt.mod (copy /var/tmp/fakefaiss-shared/alt.mod and alt.sum to {out} and change the replace line).

Your job: write ONE realistic commit that ADDS something to the vector code behind this property (15-60 changed lines in the non-test files faiss_vector_*.go / section_faiss_vector_index.go / segment.go): a small feature or extension (a fast path for a special input such as a single segment, no deletions, an all-deleted segment or k larger than the number of vectors; a new unexported option or tunable; a limit with an error; a statistics counter or size accounting; a retry or fallback when a step fails; early validation) or a bug fix for an imagined bug report (a nil check, a leak on an error path, an error that was swallowed) — correct and careful-looking EXCEPT for one subtle slip of exactly the kind such a change invites (the new path skips a step the general path performs, the new early return leaves something un-released or un-recorded, the fix handles the reported case and breaks its neighbour, the fallback reuses state the failed attempt left behind, a counter or a reference updated on one path only). It must satisfy:
  1. both configurations still compile: `cd {wt} && go build ./... && go vet .` and the vet command above;
  2. the existing test suites still pass in both configurations: `go test -vet=off -count=1 ./...` and the vectors test command above;
  3. the property above is now violated, and you can demonstrate it with the stand-in engine.
The slip must be a plausible accident of the change, not a separate change bolted on. Do not change exported API, tests, or build tags.
'''
DEMO = '''
Demonstration: write a Go test file demo_test.go (package zap, a new file{vectag}, using only what is in the repository{vecextra}) containing one test named TestSeededDemo that PASSES on the original code and FAILS on your changed code, because it observes the property being violated. Check both: run it in {wt} with your change (must fail); then save your diff (`git -C {wt} diff > {out}/patch.diff`), revert with `git -C {wt} checkout -- .`, run the test (must pass), and re-apply with `git -C {wt} apply {out}/patch.diff`. Use t.TempDir() for any files. Keep the demo deterministic.

Deliverables in {out}:
  * patch.diff — `git -C {wt} diff` of the non-test change only (do NOT include demo_test.go in it);
  * demo_test.go — the demonstration;
  * NOTES.md — what the commit claims to do, where exactly the mistake is (which lines), why the existing tests do not notice, what input makes it manifest, and which clause of the property it violates;
  * fixed.diff — the SAME commit done right (the feature / fix without the mistake; it must pass the suite and your demo). If the idea cannot be done right at all, say so in NOTES.md and omit it.
Leave the worktree with the change applied and demo_test.go present. Finish with a three-line summary.'''
def q(d):
    x = d['quantifier']; return x if isinstance(x, str) else json.dumps(x)
VEC = ['C14', 'C15', 'C16', 'C19']
PLAN = [
 ('C11','a','the slip is about synchronisation: something new that is shared between callers (a memo, a cache, a counter, a lazily built table) is read or written without the protection it needs, or with the wrong one'),
 ('C11','b','the slip is about ownership of a pooled or reused object: it is handed back, shared or kept while somebody else may still use it'),
 ('C11','c','the slip introduces shared mutable scratch state (package-level, or hanging off the segment) where each caller had its own'),
 ('C16','a','the slip is about the reference count or the eviction of a cached entry (taken on one path and not released, released twice, evicted while in use)'),
 ('C16','b','the slip lets something that belongs to one call (an argument, a filter, a parameter of the search) end up in what the cache keeps for everybody'),
 ('C20','a','the slip is in the reference counting itself: a transition that releases too early, too late, twice or never'),
 ('C20','b','the slip is in what happens at release time: ordering of the steps, a step skipped on an error, caches cleared at the wrong moment'),
 ('C17','a','the slip is on a failure path of persisting a new segment: some failure point leaves a file, leaks the descriptor, or is reported as success'),
 ('C17','b','the slip is on a failure path of a merge: some failure point leaves a file, leaks the descriptor, or is reported as success'),
 ('C17','c','the slip is about WHEN success is reported: before the bytes are durable / complete, or an error of a late step is lost'),
 ('C18','a','the slip is about where cancellation is looked at: some path writes, or completes, without having looked'),
 ('C18','b','the slip is about what a cancelled merge returns or leaves behind: the error is replaced or wrapped so that callers no longer recognise it, or the file stays'),
 ('C19','a','the slip loses an engine failure: an error that is dropped, overwritten, or recovered from so that the build or merge succeeds'),
 ('C19','b','the slip leaks a native index on some path (an early return, a failure in the middle of a loop, a reassigned variable)'),
 ('C10','a','the slip is about re-initialising pooled state: a new or changed piece of builder state is not (fully) reset between builds'),
 ('C10','b','the slip is about WHEN a builder goes back to the pool: on a path where it is still dirty, still in use, or after a failed reset'),
 ('C04','a','the slip makes the two ways of getting the bytes (persist to a path, write to a writer) differ, or makes the footer describe something else than what was written'),
 ('C04','b','the slip is in the checksum / offset bookkeeping of the writer (something written around the counting writer, a count taken at the wrong moment)'),
 ('C07','a','the slip is about reusing a postings list or iterator: state of the previous use survives into the next one'),
 ('C12','a','the slip is about reusing a synonyms list or iterator, or about the exclusion of deleted documents'),
]
for pid, tag, hint in PLAN:
    d = props[pid]
    wt, o = '/var/tmp/r14-' + pid + tag, '/var/tmp/r14-out-' + pid + tag
    kw = dict(wt=wt, out=o, pid=pid, title=d['title'], statement=d['statement'], quantifier=q(d))
    extra = '\nDirection for this particular change: ' + hint + '.\n'
    if pid in VEC:
        t = HEAD.format(**kw) + JOB_VEC.format(**kw) + extra + DEMO.format(vectag=' starting with `//go:build vectors`', vecextra=' and the stand-in', **kw)
    else:
        t = HEAD.format(**kw) + JOB_PERF.format(**kw) + extra + DEMO.format(vectag='', vecextra='', **kw)
    open(os.path.join(out, pid + tag + '.txt'), 'w').write(t)
print('wrote', len(PLAN), 'prompts to', out)
