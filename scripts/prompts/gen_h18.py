#!/usr/bin/env python3
"""Round-18 prompts: CORRECT performance / robustness / concurrency-hygiene changes (the checks must stay silent on them)."""
import json, sys, os
out = sys.argv[1] if len(sys.argv) > 1 else '/var/tmp/h18prompts'
os.makedirs(out, exist_ok=True)
props = {}
for l in open('/verif/properties.jsonl'):
    d = json.loads(l); props[d['id']] = d
T = '''You are helping to test a verification tool for false alarms. You have your own scratch git worktree of the Go library blevesearch/zapx (package zap: Bleve's immutable on-disk index segment format) at {wt} (already created, at the pinned commit). Work ONLY inside {wt} and write deliverables ONLY to {out} (create it). Never touch /repo or /verif, never run `git stash` (worktrees share the stash), never create commits, branches or tags.

Every shell call needs: export GOFLAGS=-mod=mod GOPROXY=off GOSUMDB=off GOTOOLCHAIN=local GOWORK=off   (no network).
The test suite writes fixed paths such as /tmp/scorch.zap and other people run it at the same time, so ALWAYS run go test inside a private /tmp: `unshare -rm sh -c 'mount -t tmpfs tmpfs /tmp && cd {wt} && <go test command>'`.

This is a property the library has and must keep:

  {pid}: {title}
  {statement}

The code that implements it is mainly in: {files}.
{vec}
Your job: write THREE independent, realistic, CORRECT changes to the code behind this property, each as its own patch against the pinned commit (start each from a clean tree: `git -C {wt} checkout -- .`), each 10-60 changed lines in non-test .go files, each the kind of commit a maintainer would really make and merge:
  A. performance by reuse or caching: a buffer, slice, map or object kept and reused across calls / iterations / documents / terms / segments (a field of the long-lived object, a sync.Pool, a scratch parameter) with whatever reset that needs; preallocation with a computed capacity; a cache or memo of something that is recomputed (keyed by everything it depends on, guarded by the lock that already guards its neighbours or by a new one, never aliasing memory that is recycled or unmapped);
  B. performance by a fast path or by doing less: a fast path for a common case (a single input segment, no deletions, an empty batch, a term with one posting, identical field lists, an empty exclusion bitmap) that is EXACTLY equivalent to the general path for the inputs it accepts; batching several small writes or reads into one; loading something lazily that was loaded eagerly; moving work out of a critical section; replacing a per-item look-up (Contains, map look-up, binary search) by a cursor that is kept in step;
  C. robustness or concurrency hygiene: validation of what is read from a file before it is used (lengths, offsets, counts, versions) that rejects nothing a valid file can contain; a bounds check that turns a possible panic into an error (with the clean-up the other error paths do); a defensive copy of bytes that alias the mmap or a caller's buffer where they are kept; recover() around a step that may panic, with clean-up and a returned error; a field made atomic or put under an existing mutex; a lock narrowed or an RWMutex read lock used where only reads happen; a reference taken for the duration of a long operation and dropped on EVERY way out.
Every change must be STRICTLY behaviour-preserving with respect to the property above for ALL inputs, schedules and failure points — including the unusual ones (empty inputs, deleted documents, reused objects, failing writes, cancellation, concurrent use). Think hard about that; when in doubt choose a simpler change. It must satisfy:
  1. {build}
  2. the existing test suite passes: {test}
Do not change or remove exported API (adding is fine), tests or build tags.

Deliverables in {out}:
  * a.diff, b.diff, c.diff — `git -C {wt} diff` of each change alone;
  * NOTES.md — for each: what it does and the argument why it preserves the property for all inputs (name the edge cases you checked).
Finish with a three-line summary.'''
VEC = ['C14', 'C15', 'C16', 'C19']
for pid, d in sorted(props.items()):
    wt, o = '/var/tmp/h18-' + pid, '/var/tmp/h18-out-' + pid
    a = d['anchors']
    files = ', '.join(a.get('files', [])) if isinstance(a, dict) else ''
    if pid in VEC:
        vec = ('This code is built only with `-tags vectors`, which needs the cgo library FAISS (not installed). A pure-Go stand-in for the module github.com/blevesearch/go-faiss is provided at /var/tmp/fakefaiss-shared (read-only) with a ready modfile.\n')
        build = 'both configurations compile: `cd %s && go build ./... && go vet .` and `go vet -modfile=/var/tmp/fakefaiss-shared/alt.mod -tags vectors .`' % wt
        test = '`go test -vet=off -count=1 ./...` and `go test -modfile=/var/tmp/fakefaiss-shared/alt.mod -tags vectors -vet=off -count=1 .` (both in the private /tmp)'
    else:
        vec = ''
        build = 'the library compiles: `cd %s && go build ./... && go vet .` (do not touch files that are only built with `-tags vectors`: faiss_vector_*.go, section_faiss_vector_index.go)' % wt
        test = '`go test -vet=off -count=1 ./...` (in the private /tmp; about a minute)'
    open(os.path.join(out, pid + '.txt'), 'w').write(T.format(wt=wt, out=o, pid=pid, title=d['title'], statement=d['statement'], files=files, vec=vec, build=build, test=test))
print('wrote', len(props))
