#!/usr/bin/env python3
"""Round-13 prompts: CORRECT medium-size features (the checks must stay silent on them)."""
import json, sys, os
out = sys.argv[1] if len(sys.argv) > 1 else '/var/tmp/h13prompts'
os.makedirs(out, exist_ok=True)
props = {}
for l in open('/verif/properties.jsonl'):
    d = json.loads(l); props[d['id']] = d
T = '''You are helping to test a verification tool for false alarms. You have your own scratch git worktree of the Go library blevesearch/zapx (package zap: Bleve's immutable on-disk index segment format) at {wt} (already created, at the pinned commit). Work ONLY inside {wt} and write deliverables ONLY to {out} (create it). Never touch /repo or /verif, never run `git stash` (worktrees share the stash), never create commits, branches or tags.

Every shell call needs: export GOFLAGS=-mod=mod GOPROXY=off GOSUMDB=off GOTOOLCHAIN=local GOWORK=off   (no network).
The test suite writes fixed paths such as /tmp/scorch.zap and other people run it at the same time, so ALWAYS run go test inside a private /tmp: `unshare -rm sh -c 'mount -t tmpfs tmpfs /tmp && cd {wt} && <go test command>'`.

This is a property the library has and must keep:

  {pid}: {title}
  {statement}

The code that implements it is mainly in: {files}.
{vec}
Your job: write TWO independent, realistic, CORRECT medium-size changes (each 40-120 changed lines in non-test .go files) to the code behind this property, each as its own patch against the pinned commit (start each from a clean tree: `git -C {wt} checkout -- .`), each the kind of feature or improvement that takes a maintainer a day and that would be merged:
  A. a feature that gives the code behind this property a SECOND WAY of doing something it does today, chosen by a condition or an option: a byte-copy or pass-through path for inputs that need no re-encoding, a batched or streaming variant of a per-item loop, a memo / small cache with correct invalidation, recycling of an object that is allocated afresh today (with a complete reset), a worker-goroutine version of a sequential step with proper synchronisation and error collection, a staged write (build in a buffer, then write once) — the new way must give exactly the results of the existing way for ALL inputs, including the unusual ones;
  B. a robustness or maintainability improvement of similar size: consistent handling of damaged input across a whole function (errors instead of panics, with context), resource accounting with a limit and a clear error, an internal consistency self-check that can be switched on, restructuring a long function into helpers that own their resources while adding one small capability, replacing ad-hoc cleanup by a single deferred cleanup that is correct on every path.
Every change must be STRICTLY behaviour-preserving with respect to the property above for ALL inputs, schedules and failure points — including the unusual ones (empty inputs, deleted documents, reused objects, failing writes, cancellation, concurrent use). Think hard about that; when in doubt choose a simpler change. It must satisfy:
  1. {build}
  2. the existing test suite passes: {test}
Do not change or remove exported API (adding is fine), tests or build tags.

Deliverables in {out}:
  * a.diff, b.diff — `git -C {wt} diff` of each change alone;
  * NOTES.md — for each: what it does and the argument why it preserves the property for all inputs (name the edge cases you checked).
Finish with a three-line summary.'''
VEC = ['C14', 'C15', 'C16', 'C19']
for pid, d in sorted(props.items()):
    wt, o = '/var/tmp/h13-' + pid, '/var/tmp/h13-out-' + pid
    a = d['anchors']
    files = ', '.join(a.get('files', [])) if isinstance(a, dict) else ''
    if pid in VEC:
        vec = ('This code is built only with `-tags vectors`, which needs the cgo library FAISS (not installed). A pure-Go stand-in for the module github.com/blevesearch/go-faiss is provided at /var/tmp/fakefaiss-shared (read-only) with a ready modfile.\n')
        build = 'both configurations compile: `cd %s && go build ./... && go vet .` and `go vet -modfile=/var/tmp/fakefaiss-shared/alt.mod -tags vectors .`' % wt
        test = '`go test -vet=off -count=1 ./...` and `go test -modfile=/var/tmp/fakefaiss-shared/alt.mod -tags vectors -vet=off -count=1 .` (both in the private /tmp)'
    else:
        vec = ''
        build = 'the library compiles: `cd %s && go build ./... && go vet .` (do not touch files that are only built with `-tags vectors`: faiss_vector_*.go, section_faiss_vector_index.go)' % wt
        test = '`go test -vet=off -count=1 ./...` (in the private /tmp; about a minute)'
    open(os.path.join(out, pid + '.txt'), 'w').write(T.format(wt=wt, out=o, pid=pid, title=d['title'], statement=d['statement'], files=files, vec=vec, build=build, test=test))
print('wrote', len(props))
