#!/usr/bin/env python3
"""Round-20 prompts: small everyday behaviour-preserving edits (the checks must stay silent on them)."""
import json, sys, os
out = sys.argv[1] if len(sys.argv) > 1 else '/var/tmp/h20prompts'
os.makedirs(out, exist_ok=True)
props = {}
for l in open('/verif/properties.jsonl'):
    d = json.loads(l); props[d['id']] = d
T = '''You are helping to test a verification tool for false alarms. You have your own scratch git worktree of the Go library blevesearch/zapx (package zap: Bleve's immutable on-disk index segment format) at {wt} (already created, at the pinned commit). Work ONLY inside {wt} and write deliverables ONLY to {out} (create it). Never touch /repo or /verif, never run `git stash` (worktrees share the stash), never create commits, branches or tags.

Every shell call needs: export GOFLAGS=-mod=mod GOPROXY=off GOSUMDB=off GOTOOLCHAIN=local GOWORK=off   (no network).
The test suite writes fixed paths such as /tmp/scorch.zap and other people run it at the same time, so ALWAYS run go test inside a private /tmp: `unshare -rm sh -c 'mount -t tmpfs tmpfs /tmp && cd {wt} && <go test command>'`.

This is a property the library has and must keep:

  {pid}: {title}
  {statement}

The code that implements it is mainly in: {files}.
{vec}
Your job: write FOUR independent, small, everyday edits to the code behind this property, each as its own patch against the pinned commit (start each from a clean tree: `git -C {wt} checkout -- .`), each 5-30 changed lines in non-test .go files — the kind of tidy-up a reviewer waves through:
  A. a local re-spelling: an if/else chain turned into a switch (or back), a condition inverted with the branches swapped, an early return / continue introduced or removed, `for i := 0; i < len(x); i++` turned into a range loop (or back), a compound condition split into nested ifs, De Morgan applied, `x = x + 1` vs `x++`, a `var x T` + assignment merged into `x := ...`;
  B. naming and extraction: a local variable, parameter, unexported function, method or field renamed throughout; a repeated sub-expression pulled into a well-named local; a magic number given a named constant; a 5-15 line block extracted into an unexported helper (or a trivial helper inlined at its only call site);
  C. statement-level reordering and modern idiom: two independent statements swapped, a declaration moved next to its first use, a hand-written loop replaced by `copy` / `append(dst, src...)` / `clear` / `slices.Contains` / `min` / `max`, `len(x) == 0` vs `x == nil` ONLY where both are provably equivalent, a `defer` used for an unlock/close that was written out on every path (only where the order of effects stays the same);
  D. messages and checks that cannot change behaviour: an error message reworded or given more context with %w where no caller compares the text or the identity, a redundant nil/length check removed or a provably-true defensive check added, a type assertion given its comma-ok form with the same outcome, a comment-documented invariant turned into a cheap sanity check that can never fire.
Every change must be STRICTLY behaviour-preserving with respect to the property above for ALL inputs, schedules and failure points — including the unusual ones (empty inputs, deleted documents, reused objects, failing writes, cancellation, concurrent use). Think hard about that; when in doubt choose a simpler change. It must satisfy:
  1. {build}
  2. the existing test suite passes: {test}
Do not change or remove exported API (adding is fine), tests or build tags.

Deliverables in {out}:
  * a.diff, b.diff, c.diff, d.diff — `git -C {wt} diff` of each change alone;
  * NOTES.md — for each: what it does and the argument why it preserves the property for all inputs (name the edge cases you checked).
Finish with a three-line summary.'''
VEC = ['C14', 'C15', 'C16', 'C19']
for pid, d in sorted(props.items()):
    wt, o = '/var/tmp/h20-' + pid, '/var/tmp/h20-out-' + pid
    a = d['anchors']
    files = ', '.join(a.get('files', [])) if isinstance(a, dict) else ''
    if pid in VEC:
        vec = ('This code is built only with `-tags vectors`, which needs the cgo library FAISS (not installed). A pure-Go stand-in for the module github.com/blevesearch/go-faiss is provided at /var/tmp/fakefaiss-shared (read-only) with a ready modfile.\n')
        build = 'both configurations compile: `cd %s && go build ./... && go vet .` and `go vet -modfile=/var/tmp/fakefaiss-shared/alt.mod -tags vectors .`' % wt
        test = '`go test -vet=off -count=1 ./...` and `go test -modfile=/var/tmp/fakefaiss-shared/alt.mod -tags vectors -vet=off -count=1 .` (both in the private /tmp)'
    else:
        vec = ''
        build = 'the library compiles: `cd %s && go build ./... && go vet .` (do not touch files that are only built with `-tags vectors`: faiss_vector_*.go, section_faiss_vector_index.go)' % wt
        test = '`go test -vet=off -count=1 ./...` (in the private /tmp; about a minute)'
    open(os.path.join(out, pid + '.txt'), 'w').write(T.format(wt=wt, out=o, pid=pid, title=d['title'], statement=d['statement'], files=files, vec=vec, build=build, test=test))
print('wrote', len(props))
