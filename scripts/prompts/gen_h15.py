#!/usr/bin/env python3
"""Round-15 prompts: CORRECT observability / API-evolution / plumbing changes (the checks must stay silent on them)."""
import json, sys, os
out = sys.argv[1] if len(sys.argv) > 1 else '/var/tmp/h15prompts'
os.makedirs(out, exist_ok=True)
props = {}
for l in open('/verif/properties.jsonl'):
    d = json.loads(l); props[d['id']] = d
T = '''You are helping to test a verification tool for false alarms. You have your own scratch git worktree of the Go library blevesearch/zapx (package zap: Bleve's immutable on-disk index segment format) at {wt} (already created, at the pinned commit). Work ONLY inside {wt} and write deliverables ONLY to {out} (create it). Never touch /repo or /verif, never run `git stash` (worktrees share the stash), never create commits, branches or tags.

Every shell call needs: export GOFLAGS=-mod=mod GOPROXY=off GOSUMDB=off GOTOOLCHAIN=local GOWORK=off   (no network).
The test suite writes fixed paths such as /tmp/scorch.zap and other people run it at the same time, so ALWAYS run go test inside a private /tmp: `unshare -rm sh -c 'mount -t tmpfs tmpfs /tmp && cd {wt} && <go test command>'`.

This is a property the library has and must keep:

  {pid}: {title}
  {statement}

The code that implements it is mainly in: {files}.
{vec}
Your job: write THREE independent, realistic, CORRECT changes to the code behind this property, each as its own patch against the pinned commit (start each from a clean tree: `git -C {wt} checkout -- .`), each 10-60 changed lines in non-test .go files, each the kind of commit a maintainer would really make and merge:
  A. observability: an optional callback / hook / counter / timing or size statistic that reports what the code behind this property does (how many items, bytes, cache hits, retries, which path was taken), a String()/describe method for debugging, an error that carries more context (wrapped with %w where callers do not compare it, left unwrapped where they do), a trace of the phases of an operation behind a package-level nil-by-default hook;
  B. API evolution: a new exported function or method that offers the existing behaviour in a second form and shares the existing internals (a variant taking a context.Context that is adapted to the existing cancellation channel, a variant taking an options struct, a variant writing to an io.Writer / reading from bytes, an accessor for something callers had to compute themselves), or an internal signature change that threads a new parameter (an options struct, a logger, a context) through several functions with today's behaviour as the default;
  C. plumbing / housekeeping: an interface extracted for an internal dependency (so that it can be faked in tests) with the one existing implementation, constants or a small type introduced for magic numbers, a long function split into well-named steps without changing their order, duplicated code between two siblings merged into one helper, a typed error sentinel, build-tag-neutral reorganisation of helpers between files of the package.
Every change must be STRICTLY behaviour-preserving with respect to the property above for ALL inputs, schedules and failure points — including the unusual ones (empty inputs, deleted documents, reused objects, failing writes, cancellation, concurrent use). Think hard about that; when in doubt choose a simpler change. It must satisfy:
  1. {build}
  2. the existing test suite passes: {test}
Do not change or remove exported API (adding is fine), tests or build tags.

Deliverables in {out}:
  * a.diff, b.diff, c.diff — `git -C {wt} diff` of each change alone;
  * NOTES.md — for each: what it does and the argument why it preserves the property for all inputs (name the edge cases you checked).
Finish with a three-line summary.'''
VEC = ['C14', 'C15', 'C16', 'C19']
for pid, d in sorted(props.items()):
    wt, o = '/var/tmp/h15-' + pid, '/var/tmp/h15-out-' + pid
    a = d['anchors']
    files = ', '.join(a.get('files', [])) if isinstance(a, dict) else ''
    if pid in VEC:
        vec = ('This code is built only with `-tags vectors`, which needs the cgo library FAISS (not installed). A pure-Go stand-in for the module github.com/blevesearch/go-faiss is provided at /var/tmp/fakefaiss-shared (read-only) with a ready modfile.\n')
        build = 'both configurations compile: `cd %s && go build ./... && go vet .` and `go vet -modfile=/var/tmp/fakefaiss-shared/alt.mod -tags vectors .`' % wt
        test = '`go test -vet=off -count=1 ./...` and `go test -modfile=/var/tmp/fakefaiss-shared/alt.mod -tags vectors -vet=off -count=1 .` (both in the private /tmp)'
    else:
        vec = ''
        build = 'the library compiles: `cd %s && go build ./... && go vet .` (do not touch files that are only built with `-tags vectors`: faiss_vector_*.go, section_faiss_vector_index.go)' % wt
        test = '`go test -vet=off -count=1 ./...` (in the private /tmp; about a minute)'
    open(os.path.join(out, pid + '.txt'), 'w').write(T.format(wt=wt, out=o, pid=pid, title=d['title'], statement=d['statement'], files=files, vec=vec, build=build, test=test))
print('wrote', len(props))
