#!/usr/bin/env python3
"""Round-21 prompts (a small everyday edit, done right and done with a slip) for the independent seeding agents (kept for the record: an agent is given
exactly one of these texts — the property and its own worktree — and nothing from /verif)."""
import json, sys, os
out = sys.argv[1] if len(sys.argv) > 1 else '/var/tmp/r21prompts'
os.makedirs(out, exist_ok=True)
props = {}
for l in open('/verif/properties.jsonl'):
    d = json.loads(l); props[d['id']] = d
HEAD = '''You are testing a verification tool by planting a realistic bug. You have your own scratch git worktree of the Go library blevesearch/zapx (package zap: Bleve's immutable on-disk index segment format) at {wt} (already created, at the pinned commit). Work ONLY inside {wt} and write deliverables ONLY to {out} (create it). Never touch /repo or /verif, never run `git stash` (worktrees share the stash), never create commits, branches or tags.

Every shell call needs: export GOFLAGS=-mod=mod GOPROXY=off GOSUMDB=off GOTOOLCHAIN=local GOWORK=off   (no network).
The test suite writes fixed paths such as /tmp/scorch.zap and other people run it at the same time, so ALWAYS run go test inside a private /tmp: `unshare -rm sh -c 'mount -t tmpfs tmpfs /tmp && cd {wt} && <go test command>'`.

This is a property the library is supposed to have:

  {pid}: {title}
  {statement}

  (It quantifies over: {quantifier})
'''
JOB_PERF = '''
Your job: write ONE small everyday commit (8-40 changed lines in non-test .go files) to the code behind this property — the kind of tidy-up that makes up most of a repository's history: a local re-spelling (a counted loop turned into a range loop, a condition inverted with its branches swapped, an early `continue` / `return` instead of nesting, De Morgan, a `switch` for an `if` chain), a repeated block extracted into an unexported helper or a renamed local / field, a newer idiom (`clear`, `min` / `max`, `defer` for an unlock or a cleanup, a declaration moved to its first use, two statements reordered), or a redundant-looking check / conversion / reset removed. Then make it subtly WRONG in ONE place: correct for the inputs the existing tests use, violating the property for some other input / schedule / history / failure point. The mistake must be a plausible accident of exactly this edit (the inverted condition is off by one case; the extracted helper takes the wrong one of two similar values, or returns early where the inline code fell through; the `defer` now runs later than the explicit call did, or the moved declaration is no longer re-initialised per iteration; the removed check or reset was not redundant for one caller; the range loop iterates a different extent than the counted one). It must satisfy:
  1. the library still compiles: `cd {wt} && go build ./... && go vet .`
  2. the existing test suite still passes: `go test -vet=off -count=1 ./...` (in the private /tmp, see above; if a test fails, your change is too blunt — find a subtler one);
  3. the property above is now violated, and you can demonstrate it.
Read the relevant code first. Do not change or remove exported API (adding is fine), tests, or build tags. Do not touch files that are only built with `-tags vectors`.
'''
JOB_VEC = '''
This code is built only with `-tags vectors`, which needs the cgo library FAISS (not installed). A pure-Go stand-in for the module github.com/blevesearch/go-faiss is provided at /var/tmp/fakefaiss-shared (read-only for you; read faiss.go to see what it can do, e.g. how to make it fail) with a ready modfile. Build and test the vectors configuration with
    go vet -modfile=/var/tmp/fakefaiss-shared/alt.mod -tags vectors .
    go test -modfile=/var/tmp/fakefaiss-shared/alt.mod -tags vectors -vet=off -count=1 .
(the latter inside the private /tmp, see above). If you need the stand-in to do something it cannot, copy it to {out}/fakefaiss, extend the copy, and use your own alt.mod (copy /var/tmp/fakefaiss-shared/alt.mod and alt.sum to {out} and change the replace line).

Your job: write ONE small everyday commit (8-40 changed lines in the non-test files faiss_vector_*.go / section_faiss_vector_index.go / segment.go) to the vector code behind this property — a local re-spelling (range loop, inverted condition, early `continue` / `return`, De Morgan), a repeated block extracted into an unexported helper or a renamed local / field, a newer idiom (`clear`, `min` / `max`, `defer` for an unlock, a close or a free, a declaration moved to its first use, two statements reordered), or a redundant-looking check / reset / release removed — correct and careful-looking EXCEPT for one subtle slip of exactly the kind such an edit invites (the inverted condition is off by one case; the helper takes the wrong one of two similar values or returns early where the inline code fell through; the `defer` runs later than the explicit call did or captures the wrong variable; the moved declaration is no longer re-initialised per iteration; the removed check, reset or release was not redundant on one path). It must satisfy:
  1. both configurations still compile: `cd {wt} && go build ./... && go vet .` and the vet command above;
  2. the existing test suites still pass in both configurations: `go test -vet=off -count=1 ./...` and the vectors test command above;
  3. the property above is now violated, and you can demonstrate it with the stand-in engine.
The slip must be a plausible accident of the change, not a separate change bolted on. Do not change exported API, tests, or build tags.
'''
DEMO = '''
Demonstration: write a Go test file demo_test.go (package zap, a new file{vectag}, using only what is in the repository{vecextra}) containing one test named TestSeededDemo that PASSES on the original code and FAILS on your changed code, because it observes the property being violated. Check both: run it in {wt} with your change (must fail); then save your diff (`git -C {wt} diff > {out}/patch.diff`), revert with `git -C {wt} checkout -- .`, run the test (must pass), and re-apply with `git -C {wt} apply {out}/patch.diff`. Use t.TempDir() for any files. Keep the demo deterministic.

Deliverables in {out}:
  * patch.diff — `git -C {wt} diff` of the non-test change only (do NOT include demo_test.go in it);
  * demo_test.go — the demonstration;
  * NOTES.md — what the commit claims to do, where exactly the mistake is (which lines), why the existing tests do not notice, what input makes it manifest, and which clause of the property it violates;
  * fixed.diff — the SAME edit done right (without the mistake; it must pass the suite and your demo), behaviour-preserving for every input.
Leave the worktree with the change applied and demo_test.go present. Finish with a three-line summary.'''
def q(d):
    x = d['quantifier']; return x if isinstance(x, str) else json.dumps(x)
VEC = ['C14', 'C15', 'C16', 'C19']
for pid, d in sorted(props.items()):
    wt, o = '/var/tmp/r21-' + pid, '/var/tmp/r21-out-' + pid
    kw = dict(wt=wt, out=o, pid=pid, title=d['title'], statement=d['statement'], quantifier=q(d))
    if pid in VEC:
        t = HEAD.format(**kw) + JOB_VEC.format(**kw) + DEMO.format(vectag=' starting with `//go:build vectors`', vecextra=' and the stand-in', **kw)
    else:
        t = HEAD.format(**kw) + JOB_PERF.format(**kw) + DEMO.format(vectag='', vecextra='', **kw)
    open(os.path.join(out, pid + '.txt'), 'w').write(t)
print('wrote', len(props), 'prompts to', out)
