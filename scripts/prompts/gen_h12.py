#!/usr/bin/env python3
"""Round-12 prompts: CORRECT feature additions / hardening fixes (the checks must stay silent on them)."""
import json, sys, os
out = sys.argv[1] if len(sys.argv) > 1 else '/var/tmp/h12prompts'
os.makedirs(out, exist_ok=True)
props = {}
for l in open('/verif/properties.jsonl'):
    d = json.loads(l); props[d['id']] = d
T = '''You are helping to test a verification tool for false alarms. You have your own scratch git worktree of the Go library blevesearch/zapx (package zap: Bleve's immutable on-disk index segment format) at {wt} (already created, at the pinned commit). Work ONLY inside {wt} and write deliverables ONLY to {out} (create it). Never touch /repo or /verif, never run `git stash` (worktrees share the stash), never create commits, branches or tags.

Every shell call needs: export GOFLAGS=-mod=mod GOPROXY=off GOSUMDB=off GOTOOLCHAIN=local GOWORK=off   (no network).
The test suite writes fixed paths such as /tmp/scorch.zap and other people run it at the same time, so ALWAYS run go test inside a private /tmp: `unshare -rm sh -c 'mount -t tmpfs tmpfs /tmp && cd {wt} && <go test command>'`.

This is a property the library has and must keep:

  {pid}: {title}
  {statement}

The code that implements it is mainly in: {files}.
{vec}
Your job: write THREE independent, realistic, CORRECT changes that ADD something to the code behind this property, each as its own patch against the pinned commit (start each from a clean tree: `git -C {wt} checkout -- .`), each 10-50 changed lines in non-test .go files, each the kind of commit a maintainer would really make and merge:
  A. a fast path or shortcut for a special input (a single segment, an empty or all-deleted segment, a one-document batch, a field without locations / without doc values, a term present in one segment only, an unchanged object that can be reused as it is, ...) that produces exactly what the general path produces;
  B. a hardening / bug-fix style change (input validation with an error, a bounds or nil check that turns a panic on damaged input into an error, an overflow guard, a leak closed on an error path, an error message with more context, a limit with a clear error) that changes nothing for valid inputs;
  C. a small feature (a statistics counter or size accounting, an unexported accessor or option / package-level tunable with today's behaviour as its default, a second unexported entry point that shares the existing routine, a debug / consistency self-check behind a flag that is off by default, pre-sizing from information that is already there, ...).
Every change must be STRICTLY behaviour-preserving with respect to the property above for ALL inputs, schedules and failure points — including the unusual ones (empty inputs, deleted documents, reused objects, failing writes, cancellation, concurrent use). Think hard about that; when in doubt choose a simpler change. It must satisfy:
  1. {build}
  2. the existing test suite passes: {test}
Do not change or remove exported API (adding is fine), tests or build tags.

Deliverables in {out}:
  * a.diff, b.diff, c.diff — `git -C {wt} diff` of each change alone;
  * NOTES.md — for each: what it does and the argument why it preserves the property for all inputs (name the edge cases you checked).
Finish with a three-line summary.'''
VEC = ['C14', 'C15', 'C16', 'C19']
for pid, d in sorted(props.items()):
    wt, o = '/var/tmp/h12-' + pid, '/var/tmp/h12-out-' + pid
    a = d['anchors']
    files = ', '.join(a.get('files', [])) if isinstance(a, dict) else ''
    if pid in VEC:
        vec = ('This code is built only with `-tags vectors`, which needs the cgo library FAISS (not installed). A pure-Go stand-in for the module github.com/blevesearch/go-faiss is provided at /var/tmp/fakefaiss-shared (read-only) with a ready modfile.\n')
        build = 'both configurations compile: `cd %s && go build ./... && go vet .` and `go vet -modfile=/var/tmp/fakefaiss-shared/alt.mod -tags vectors .`' % wt
        test = '`go test -vet=off -count=1 ./...` and `go test -modfile=/var/tmp/fakefaiss-shared/alt.mod -tags vectors -vet=off -count=1 .` (both in the private /tmp)'
    else:
        vec = ''
        build = 'the library compiles: `cd %s && go build ./... && go vet .` (do not touch files that are only built with `-tags vectors`: faiss_vector_*.go, section_faiss_vector_index.go)' % wt
        test = '`go test -vet=off -count=1 ./...` (in the private /tmp; about a minute)'
    open(os.path.join(out, pid + '.txt'), 'w').write(T.format(wt=wt, out=o, pid=pid, title=d['title'], statement=d['statement'], files=files, vec=vec, build=build, test=test))
print('wrote', len(props))
