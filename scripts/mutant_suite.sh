#!/bin/bash
# For every self-test mutant of the default configuration: does the package still build and do the 30
# pinned tests still pass? (vectors-tag mutants cannot be built here: no FAISS.) Recorded once in
# /verif/selftest_suite_outcomes.json; the checks themselves never run tests.
export GOFLAGS=-mod=mod GOPROXY=off GOSUMDB=off GOTOOLCHAIN=local GOWORK=off
OUT=${1:-/verif/selftest_suite_outcomes.json}
rm -rf /tmp/mut && /verif/bin/zapxlint selftest -export /tmp/mut >/dev/null
echo "{" > $OUT.tmp
first=1
for d in /tmp/mut/*/; do
  id=$(basename $d)
  cfg=$(cat $d/CONFIG)
  res="not-run (vectors tag: FAISS not installed)"
  if [ "$cfg" = default ]; then
    W=/tmp/mutwt-$id
    rm -rf $W && mkdir -p $W && (cd /repo && git archive HEAD | tar -x -C $W)
    (cd $d && find . -name '*.go' | while read f; do cp "$f" "$W/$f"; done)
    if (cd $W && go build ./... >/dev/null 2>&1); then
      if (cd $W && go test -vet=off -count=1 . >/dev/null 2>&1); then res="builds; 30 pinned tests pass"; else res="builds; pinned tests FAIL"; fi
    else res="does not build"; fi
    rm -rf $W
  fi
  [ $first = 1 ] || echo "," >> $OUT.tmp
  first=0
  printf ' "%s": "%s"' "$id" "$res" >> $OUT.tmp
done
echo "" >> $OUT.tmp; echo "}" >> $OUT.tmp
mv $OUT.tmp $OUT
rm -rf /tmp/mut
