#!/bin/bash
# rfcheck.sh <patch> : apply a behaviour-preserving patch to /repo, run all rules (no evidence), undo.
export GOFLAGS=-mod=mod GOPROXY=off GOSUMDB=off GOTOOLCHAIN=local GOWORK=off
P=$1
git -C /repo apply --check "$P" || { echo "patch does not apply"; exit 2; }
git -C /repo apply "$P"
trap 'git -C /repo checkout -- . ; git -C /repo clean -fdq' EXIT
/verif/bin/zapxlint list -repo /repo 2>&1 | grep -v "R16/mergeToWriter/field-table-at-offset-0" | grep "violated\|undecided\|unresolved\|floor\|error\|panic" | sort | uniq
echo "--- rfcheck done"
