#!/usr/bin/env python3
"""Regenerates the confirmedCounts table of checker/floors.go from `zapxlint counts` output on stdin."""
import re,collections,sys
d=collections.defaultdict(lambda: collections.defaultdict(lambda:[0,0]))
for l in sys.stdin:
    m=re.match(r'(R\d+)\s+(\S+)\s+(C\d+)\s+obligations=\s*(\d+)',l)
    if m:
        r,cfg,p,n=m.groups()
        d[r][p][0 if cfg=='default' else 1]=int(n)
lines=[]
for r in sorted(d,key=lambda x:int(x[1:])):
    inner=', '.join('"%s": {%d, %d}'%(p,v[0],v[1]) for p,v in sorted(d[r].items()))
    lines.append('\t"%s": {%s},'%(r,inner))
path='/verif/checker/floors.go'
s=open(path).read()
s=re.sub(r'(var confirmedCounts = map\[string\]map\[string\]\[2\]int\{[^\n]*\n)(.*?)(^\})',lambda m:m.group(1)+'\n'.join(lines)+'\n'+m.group(3),s,flags=re.S|re.M)
open(path,'w').write(s)
